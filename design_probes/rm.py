# Textbook SM9 R-ate pairing, flat Fq12 = Fq[w]/(w^12+2), generic everything.
import sys, time
t=0x600000000058F98A
q=36*t**4+36*t**3+24*t**2+6*t+1
r=36*t**4+36*t**3+18*t**2+6*t+1
N=12
def fadd(a,b): return [(x+y)%q for x,y in zip(a,b)]
def fsub(a,b): return [(x-y)%q for x,y in zip(a,b)]
def fneg(a): return [(-x)%q for x in a]
def fmul(a,b):
    c=[0]*(2*N-1)
    for i,x in enumerate(a):
        if x==0: continue
        for j,y in enumerate(b):
            if y: c[i+j]+=x*y
    for k in range(2*N-2,N-1,-1):
        c[k-N]-=2*c[k]
    return [x%q for x in c[:N]]
def fconst(x): return [x%q]+[0]*(N-1)
ONE=fconst(1); ZERO=fconst(0)
def fpow(a,e):
    res=ONE; base=a
    while e:
        if e&1: res=fmul(res,base)
        base=fmul(base,base); e>>=1
    return res
# polynomial inverse via extended Euclid over Fq
def pdeg(p):
    d=len(p)-1
    while d>=0 and p[d]%q==0: d-=1
    return d
def pdivmod(a,b):
    a=a[:]; db=pdeg(b); inv=pow(b[db],-1,q); qt=[0]*max(1,len(a))
    while pdeg(a)>=db:
        da=pdeg(a); c=a[da]*inv%q; qt[da-db]=c
        for i in range(db+1): a[da-db+i]=(a[da-db+i]-c*b[i])%q
    return qt,a
def pmul(a,b):
    c=[0]*(len(a)+len(b)-1)
    for i,x in enumerate(a):
        for j,y in enumerate(b): c[i+j]=(c[i+j]+x*y)%q
    return c
def psub(a,b):
    n=max(len(a),len(b)); a=a+[0]*(n-len(a)); b=b+[0]*(n-len(b))
    return [(x-y)%q for x,y in zip(a,b)]
def finv(a):
    m=[2]+[0]*11+[1]
    r0,r1=m,a[:]; s0,s1=[0],[1]
    while pdeg(r1)>0:
        qt,rem=pdivmod(r0,r1)
        r0,r1=r1,rem
        s0,s1=s1,psub(s0,pmul(qt,s1))
    assert pdeg(r1)==0
    c=pow(r1[0],-1,q)
    s=[x*c%q for x in s1]
    _,s=pdivmod(s+[0]*(13-len(s)) if len(s)<13 else s,m)
    return (s+[0]*N)[:N]
W=[0,1]+[0]*10
def wpow(k): # w^k for k in 0..11
    v=[0]*N; v[k]=1; return v
WINV=finv(W)
# Frobenius: generic
WQ=fpow(W,q)
WQP=[ONE]
for i in range(1,N): WQP.append(fmul(WQP[-1],WQ))
def frob(a):
    res=ZERO
    for i,x in enumerate(a):
        if x: res=fadd(res,[x*y%q for y in WQP[i]])
    return res
# curves
def on_E12(P): 
    if P is None: return True
    x,y=P; return fmul(y,y)==fadd(fmul(fmul(x,x),x),fconst(5))
def e12_add(P,Q):
    if P is None: return Q
    if Q is None: return P
    x1,y1=P; x2,y2=Q
    if x1==x2:
        if fadd(y1,y2)==ZERO: return None
        lam=fmul(fmul(fconst(3),fmul(x1,x1)),finv(fadd(y1,y1)))
    else:
        lam=fmul(fsub(y2,y1),finv(fsub(x2,x1)))
    x3=fsub(fsub(fmul(lam,lam),x1),x2)
    y3=fsub(fmul(lam,fsub(x1,x3)),y1)
    return (x3,y3)
def line(T,V,P):
    # line through T,V (tangent if equal) evaluated at P, all in E(Fq12); returns (value, T+V)
    x1,y1=T; x2,y2=V; xp,yp=P
    if x1==x2 and fadd(y1,y2)==ZERO:
        return fsub(xp,x1), None
    if x1==x2: lam=fmul(fmul(fconst(3),fmul(x1,x1)),finv(fadd(y1,y1)))
    else: lam=fmul(fsub(y2,y1),finv(fsub(x2,x1)))
    val=fsub(fsub(yp,y1),fmul(lam,fsub(xp,x1)))
    x3=fsub(fsub(fmul(lam,lam),x1),x2); y3=fsub(fmul(lam,fsub(x1,x3)),y1)
    return val,(x3,y3)
def fq2_to12(c0,c1): # c0 + c1*u, u = w^6
    v=[0]*N; v[0]=c0%q; v[6]=c1%q; return v
W2INV=fmul(WINV,WINV); W3INV=fmul(W2INV,WINV)
def untwist(Qt): # ((x0,x1),(y0,y1)) on E': y^2=x^3+5u
    (x0,x1),(y0,y1)=Qt
    return (fmul(fq2_to12(x0,x1),W2INV), fmul(fq2_to12(y0,y1),W3INV))
def pairing(P1,Qt):
    # P1=(x,y) ints on E(Fq); Qt twist point
    if P1 is None or Qt is None: return ONE
    P=(fconst(P1[0]),fconst(P1[1])); Q=untwist(Qt)
    assert on_E12(P) and on_E12(Q)
    a=6*t+2
    f=ONE; T=Q
    for i in range(a.bit_length()-2,-1,-1):
        l,T2=line(T,T,P); f=fmul(fmul(f,f),l); T=T2
        if (a>>i)&1:
            l,T2=line(T,Q,P); f=fmul(f,l); T=T2
    Q1=(frob(Q[0]),frob(Q[1])); Q2=(frob(Q1[0]),frob(Q1[1]))
    assert on_E12(Q1) and on_E12(Q2)
    l,T=line(T,Q1,P); f=fmul(f,l)
    nQ2=(Q2[0],fneg(Q2[1]))
    l,T=line(T,nQ2,P); f=fmul(f,l)
    return fpow(f,(q**12-1)//r)
# serialisation: 12 limbs, order of w-exponents high first per tower c2|c1|c0 / c1|c0 / c1|c0
ORDER=[11,5,8,2,10,4,7,1,9,3,6,0]
def ser(a): return b''.join(a[k].to_bytes(32,'big') for k in ORDER)
P1=(0x93DE051D62BF718FF5ED0704487D01D6E1E4086909DC3280E8C4E4817C66DDDD,0x21FE8DDA4F21E607631065125C395BBC1C1C00CBFA6024350C464CD70A3EA616)
P2=((0x3722755292130B08D2AAB97FD34EC120EE265948D19C17ABF9B7213BAF82D65B,0x85AEF3D078640C98597B6027B441A01FF1DD2C190F5E93C454806C11D8806141),
    (0xA7CF28D519BE3DA65F3170153D278FF247EFBA98A71A08116215BBA5C999A7C7,0x17509B092E845C1266BA0D262CBEE6ED0736A96FA347C8BD856DC76B84EBEB96))
if __name__=="__main__":
    # twist scalar mul through E12 arithmetic (slow but generic)
    ks=0x000130E78459D78545CB54C587E02CF480CE0B66340F319F348A1D5B1F2DC5F4
    # compute [ks]P2 on twist via Fq2 affine arithmetic
    def f2mul(a,b): return ((a[0]*b[0]-2*a[1]*b[1])%q,(a[0]*b[1]+a[1]*b[0])%q)
    def f2add(a,b): return ((a[0]+b[0])%q,(a[1]+b[1])%q)
    def f2sub(a,b): return ((a[0]-b[0])%q,(a[1]-b[1])%q)
    def f2inv(a):
        n=pow((a[0]*a[0]+2*a[1]*a[1])%q,-1,q); return (a[0]*n%q,(-a[1]*n)%q)
    def tadd(P,Q):
        if P is None: return Q
        if Q is None: return P
        (x1,y1),(x2,y2)=P,Q
        if x1==x2:
            if f2add(y1,y2)==(0,0): return None
            lam=f2mul(f2mul((3,0),f2mul(x1,x1)),f2inv(f2add(y1,y1)))
        else: lam=f2mul(f2sub(y2,y1),f2inv(f2sub(x2,x1)))
        x3=f2sub(f2sub(f2mul(lam,lam),x1),x2); y3=f2sub(f2mul(lam,f2sub(x1,x3)),y1)
        return (x3,y3)
    def tmul(k,P):
        R=None
        for i in range(k.bit_length()-1,-1,-1):
            R=tadd(R,R)
            if (k>>i)&1: R=tadd(R,P)
        return R
    t0=time.time()
    Ppub=tmul(ks,P2)
    print("Ppub x", hex(Ppub[0][1]), hex(Ppub[0][0]))
    g=pairing(P1,Ppub)
    print("pairing time", time.time()-t0)
    s=ser(g).hex().upper()
    for i in range(0,len(s),64): print(s[i:i+64])
    exp="AAB9F06A4EEBA4323A7833DB202E4E35639D93FA3305AF73F0F071D7D284FCFB"
    print("c0.c0.c0 (w^0) =", hex(g[0]).upper(), "expected", exp)
    rr=0x00033C8616B06704813203DFD00965022ED15975C662337AED648835DC4B1CBE
    gp=fpow(g,rr)
    s=ser(gp).hex().upper()
    print(s[:64]); print("expected 81377B8FDBC2839B4FA2D0E0F8AA6853BBBE9E9C4099608F8612C6078ACD7563")
