from rm import q, r, t, P1, P2
R = 2**256
def h32(x): return x.to_bytes(32,'big').hex()
# Fq2 arithmetic (c0 + c1 u, u^2=-2)
def f2mul(a,b): return ((a[0]*b[0]-2*a[1]*b[1])%q,(a[0]*b[1]+a[1]*b[0])%q)
def f2add(a,b): return ((a[0]+b[0])%q,(a[1]+b[1])%q)
def f2sub(a,b): return ((a[0]-b[0])%q,(a[1]-b[1])%q)
def f2neg(a): return ((-a[0])%q,(-a[1])%q)
def f2inv(a):
    n=pow((a[0]*a[0]+2*a[1]*a[1])%q,-1,q); return (a[0]*n%q,(-a[1]*n)%q)
def f2pow(a,e):
    res=(1,0)
    while e:
        if e&1: res=f2mul(res,a)
        a=f2mul(a,a); e>>=1
    return res
def f2issq(a):
    if a==(0,0): return True
    n=(a[0]*a[0]+2*a[1]*a[1])%q
    return pow(n,(q-1)//2,q)==1
def f2sqrt_ts(a):
    # Tonelli-Shanks in Fq2: q^2-1 = 2^3 * m
    if a==(0,0): return (0,0)
    if not f2issq(a): return None
    m=(q*q-1)//8
    # find non-residue
    z=(1,1)
    k=1
    while f2issq(z): k+=1; z=(k,1)
    c=f2pow(z,m); tt=f2pow(a,m); R_=f2pow(a,(m+1)//2); M=3
    while tt!=(1,0):
        i=0; t2=tt
        while t2!=(1,0): t2=f2mul(t2,t2); i+=1
        b=c
        for _ in range(M-i-1): b=f2mul(b,b)
        M=i; c=f2mul(b,b); tt=f2mul(tt,c); R_=f2mul(R_,b)
    assert f2mul(R_,R_)==a
    return R_
class F1:  # Fq as "field ops" for generic curve code
    zero=0; one=1
    add=staticmethod(lambda a,b:(a+b)%q); sub=staticmethod(lambda a,b:(a-b)%q); mul=staticmethod(lambda a,b:a*b%q)
    neg=staticmethod(lambda a:(-a)%q); inv=staticmethod(lambda a:pow(a,-1,q))
    b=5
class F2:
    zero=(0,0); one=(1,0)
    add=staticmethod(f2add); sub=staticmethod(f2sub); mul=staticmethod(f2mul); neg=staticmethod(f2neg); inv=staticmethod(f2inv)
    b=(0,5)
def cadd(F,P,Q):
    if P is None: return Q
    if Q is None: return P
    x1,y1=P; x2,y2=Q
    if x1==x2:
        if F.add(y1,y2)==F.zero: return None
        lam=F.mul(F.mul(F.add(F.one,F.add(F.one,F.one)),F.mul(x1,x1)),F.inv(F.add(y1,y1)))
    else: lam=F.mul(F.sub(y2,y1),F.inv(F.sub(x2,x1)))
    x3=F.sub(F.sub(F.mul(lam,lam),x1),x2); y3=F.sub(F.mul(lam,F.sub(x1,x3)),y1)
    return (x3,y3)
def cneg(F,P): return None if P is None else (P[0],F.neg(P[1]))
def cmul(F,k,P):
    Rr=None
    for i in range(k.bit_length()-1,-1,-1):
        Rr=cadd(F,Rr,Rr)
        if (k>>i)&1: Rr=cadd(F,Rr,P)
    return Rr
def oncurve(F,P): return P is None or F.mul(P[1],P[1])==F.add(F.mul(F.mul(P[0],P[0]),P[0]),F.b)
# encoders for the probe protocol
def e1(x): return h32(x)
def e2(x): return h32(x[1])+h32(x[0])  # imag first
def jac(F,enc,P,lam=None):
    one=F.one
    if P is None: return None
    if lam is None: return enc(P[0])+enc(P[1])+enc(one)
    l2=F.mul(lam,lam); l3=F.mul(l2,lam)
    return enc(F.mul(P[0],l2))+enc(F.mul(P[1],l3))+enc(lam)
def d1(s): return int(s,16)
def d2(s): return (int(s[64:],16),int(s[:64],16))
def unjac(F,dec,s,w):
    x=dec(s[:w]); y=dec(s[w:2*w]); z=dec(s[2*w:])
    if z==F.zero: return None
    zi=F.inv(z); zi2=F.mul(zi,zi)
    return (F.mul(x,zi2),F.mul(y,F.mul(zi2,zi)))
