import random, subprocess
from rm import *
random.seed(5)
def de(h):
    b=bytes.fromhex(h); a=[0]*12
    for i,k in enumerate(ORDER): a[k]=int.from_bytes(b[32*i:32*i+32],'big')
    return a
def rnd(kind):
    if kind=='rand': return [random.randrange(q) for _ in range(12)]
    if kind=='sparse': 
        a=[0]*12
        for k in random.sample(range(12),2): a[k]=random.randrange(q)
        return a
    if kind=='fq': return fconst(random.randrange(1,q))
    if kind=='fq2': a=[0]*12; a[0]=random.randrange(q); a[6]=random.randrange(q); return a
    if kind=='edge': return [random.choice([0,1,q-1,q-2,(q-1)//2,2**255,2**256-q]) for _ in range(12)]
E=(q**12-1)//r
cases=[]
for kind in ['rand','sparse','fq','fq2','edge']:
    for _ in range(4):
        x=rnd(kind)
        if x==ZERO: continue
        y=rnd('rand')
        e=random.getrandbits(random.choice([1,7,64,127,128]))
        cases += [("fe1 "+ser(x).hex(), fpow(x,E)),("fe2 "+ser(x).hex(), fpow(x,E)),("sqr "+ser(x).hex(), fmul(x,x)),
                  ("inv "+ser(x).hex(), finv(x)),("frob1 "+ser(x).hex(), fpow(x,q)),("frob2 "+ser(x).hex(), fpow(x,q*q)),
                  ("frob3 "+ser(x).hex(), fpow(x,q**3)),("frob6 "+ser(x).hex(), fpow(x,q**6)),
                  ("pow "+ser(x).hex()+" %x"%e, fpow(x,e)),("mul "+ser(x).hex()+" "+ser(y).hex(), fmul(x,y))]
inp="\n".join(c[0] for c in cases)+"\n"
out=subprocess.run(["./target/release/probe"],input=inp.encode(),capture_output=True).stdout.decode().split("\n")
bad=0
from collections import Counter
cnt=Counter()
for (c,exp),o in zip(cases,out):
    ok = o==ser(exp).hex()
    cnt[(c.split()[0],ok)]+=1
    if not ok and bad<5: bad+=1; print("MISMATCH",c[:40],o[:64],ser(exp).hex()[:64])
print(sorted(cnt.items()))
