use sm9_core::*;
use std::panic::{catch_unwind, AssertUnwindSafe};
fn hx(b: &[u8]) -> String { b.iter().map(|x| format!("{:02x}", x)).collect() }
fn unhex(s: &str) -> Vec<u8> { if s == "-" { return vec![]; } (0..s.len()/2).map(|i| u8::from_str_radix(&s[2*i..2*i+2],16).unwrap()).collect() }
fn fq(s: &str) -> Fq { let b = unhex(s); let f = Fq::from_slice(&b).unwrap(); assert_eq!(hx(&f.to_slice()), s.to_lowercase(), "noncanonical literal"); f }
fn fr(s: &str) -> Fr { let b = unhex(s); let f = Fr::from_slice(&b).unwrap(); assert_eq!(hx(&f.to_slice()), s.to_lowercase(), "noncanonical literal"); f }
fn fq2(s: &str) -> Fq2 { Fq2::new(fq(&s[64..]), fq(&s[..64])) } // imag first
fn g1(s: &str) -> G1 { G1::new(fq(&s[..64]), fq(&s[64..128]), fq(&s[128..])) }
fn g2(s: &str) -> G2 { G2::new(fq2(&s[..128]), fq2(&s[128..256]), fq2(&s[256..])) }
fn g1o(g: G1) -> String { format!("{}{}{}", hx(&g.x().to_slice()), hx(&g.y().to_slice()), hx(&g.z().to_slice())) }
fn g2o(g: G2) -> String { format!("{}{}{}", hx(&g.x().to_slice()), hx(&g.y().to_slice()), hx(&g.z().to_slice())) }
fn run(p: &[&str]) -> String {
    match p[0] {
        "fr.add" => hx(&(fr(p[1]) + fr(p[2])).to_slice()),
        "fr.sub" => hx(&(fr(p[1]) - fr(p[2])).to_slice()),
        "fr.mul" => hx(&(fr(p[1]) * fr(p[2])).to_slice()),
        "fr.neg" => hx(&(-fr(p[1])).to_slice()),
        "fr.inv" => fr(p[1]).inverse().map(|v| hx(&v.to_slice())).unwrap_or("none".into()),
        "fr.pow" => hx(&fr(p[1]).pow(fr(p[2])).to_slice()),
        "fq.add" => hx(&(fq(p[1]) + fq(p[2])).to_slice()),
        "fq.sub" => hx(&(fq(p[1]) - fq(p[2])).to_slice()),
        "fq.mul" => hx(&(fq(p[1]) * fq(p[2])).to_slice()),
        "fq.neg" => hx(&(-fq(p[1])).to_slice()),
        "fq.inv" => fq(p[1]).inverse().map(|v| hx(&v.to_slice())).unwrap_or("none".into()),
        "fq.pow" => hx(&fq(p[1]).pow(fq(p[2])).to_slice()),
        "fq.sqrt" => fq(p[1]).sqrt().map(|v| hx(&v.to_slice())).unwrap_or("none".into()),
        "fq2.mul" => hx(&(fq2(p[1]) * fq2(p[2])).to_slice()),
        "fq2.sqrt" => fq2(p[1]).sqrt().map(|v| hx(&v.to_slice())).unwrap_or("none".into()),
        "fr.from_slice" => Fr::from_slice(&unhex(p[1])).map(|v| hx(&v.to_slice())).unwrap_or("none".into()),
        "fq.from_slice" => Fq::from_slice(&unhex(p[1])).map(|v| hx(&v.to_slice())).unwrap_or("none".into()),
        "fr.from_hash" => Fr::from_hash(&unhex(p[1])).map(|v| hx(&v.to_slice())).unwrap_or("none".into()),
        "fr.from_str" => Fr::from_str(std::str::from_utf8(&unhex(p[1])).unwrap()).map(|v| hx(&v.to_slice())).unwrap_or("err".into()),
        "fr.eqfresh" => { let a = fr(p[1]) + fr(p[2]); format!("{}", a == Fr::from_slice(&a.to_slice()).unwrap()) }
        "g1.add" => g1o(g1(p[1]) + g1(p[2])),
        "g1.sub" => g1o(g1(p[1]) - g1(p[2])),
        "g1.mul" => g1o(g1(p[1]) * fr(p[2])),
        "g1.eq" => format!("{}", g1(p[1]) == g1(p[2])),
        "g1.norm" => { let mut g = g1(p[1]); g.normalize(); g1o(g) }
        "g2.add" => g2o(g2(p[1]) + g2(p[2])),
        "g2.sub" => g2o(g2(p[1]) - g2(p[2])),
        "g2.mul" => g2o(g2(p[1]) * fr(p[2])),
        "g2.eq" => format!("{}", g2(p[1]) == g2(p[2])),
        "g1.to_slice" => hx(&g1(p[1]).to_slice()),
        "g1.to_comp" => hx(&g1(p[1]).to_compressed()),
        "g2.to_slice" => hx(&g2(p[1]).to_slice()),
        "g2.to_comp" => hx(&g2(p[1]).to_compressed()),
        "g1.from_slice" => G1::from_slice(&unhex(p[1])).map(g1o).unwrap_or_else(|e| format!("err {:?}", e)),
        "g1.from_unc" => G1::from_uncompressed(&unhex(p[1])).map(g1o).unwrap_or_else(|e| format!("err {:?}", e)),
        "g1.from_comp" => G1::from_compressed(&unhex(p[1])).map(g1o).unwrap_or_else(|e| format!("err {:?}", e)),
        "g2.from_slice" => G2::from_slice(&unhex(p[1])).map(g2o).unwrap_or_else(|e| format!("err {:?}", e)),
        "g2.from_unc" => G2::from_uncompressed(&unhex(p[1])).map(g2o).unwrap_or_else(|e| format!("err {:?}", e)),
        "g2.from_comp" => G2::from_compressed(&unhex(p[1])).map(g2o).unwrap_or_else(|e| format!("err {:?}", e)),
        "ag1.new" => format!("{}", AffineG1::new(fq(p[1]), fq(p[2])).is_ok()),
        "ag2.new" => format!("{}", AffineG2::new(fq2(p[1]), fq2(p[2])).is_ok()),
        "pair" => hx(&pairing(g1(p[1]), g2(p[2])).to_slice()),
        "fast" => hx(&fast_pairing(g1(p[1]), g2(p[2])).to_slice()),
        "prep" => hx(&G2Prepared::from(g2(p[2])).pairing(&g1(p[1])).to_slice()),
        _ => "unknown".into(),
    }
}
fn main() {
    std::panic::set_hook(Box::new(|_| {}));
    let stdin = std::io::stdin();
    let mut line = String::new();
    while { line.clear(); stdin.read_line(&mut line).unwrap() > 0 } {
        let parts: Vec<&str> = line.trim().split(' ').collect();
        match catch_unwind(AssertUnwindSafe(|| run(&parts))) {
            Ok(s) => println!("{}", s),
            Err(e) => println!("panic {}", e.downcast_ref::<String>().cloned().or(e.downcast_ref::<&str>().map(|s| s.to_string())).unwrap_or_default()),
        }
    }
}
