import random, subprocess, sys
from grp import *
random.seed(3)
def run(lines):
    out=subprocess.run(["./target/release/probe"],input=("\n".join(lines)+"\n").encode(),capture_output=True).stdout.decode().split("\n")
    return out[:len(lines)]
lines=[];exp=[]
for F,enc,G,pre,lamf in [(F1,e1,P1,"g1",lambda:random.choice([1,q-1,2,random.randrange(1,q)])),(F2,e2,P2,"g2",lambda:random.choice([(1,0),(q-1,0),(0,1),(random.randrange(q),random.randrange(q))]))]:
    def rep(P):
        if P is None: return enc(F.mul(lamf(),lamf()))+enc(lamf())+enc(F.zero) if random.random()<.5 else enc(F.zero)+enc(F.one)+enc(F.zero)
        return jac(F,enc,P,random.choice([None,lamf(),lamf()]))
    for it in range(200):
        a=random.choice([0,1,2,random.randrange(r)])
        b=random.choice([a,(-a)%r,0,random.randrange(r),a])
        A=cmul(F,a,G);B=cmul(F,b,G)
        lines.append(f"{pre}.eq {rep(A)} {rep(B)}"); exp.append(str(A==B).lower())
out=run(lines)
print(sum(o!=e for o,e in zip(out,exp)),"bad of",len(lines))
