import random, subprocess, sys
from grp import *
random.seed(int(sys.argv[1]) if len(sys.argv)>1 else 1)
def run(lines):
    out=subprocess.run(["./target/release/probe"],input=("\n".join(lines)+"\n").encode(),capture_output=True).stdout.decode().split("\n")
    return out[:len(lines)]
ZERO1="00"*31+"00"+"00"*31+"01"+"00"*32
def special_scalars(): return [0,1,2,3,r-1,r-2,(r-1)//2,(r+1)//2,2**255,2**128,2**64-1,2**192+1]
def lam1(): return random.choice([1,q-1,2,random.randrange(1,q),2**255,q-2])
def lam2(): return random.choice([(1,0),(q-1,0),(0,1),(random.randrange(q),random.randrange(q)),(2**255,q-1)])
bad=0; n=0
for F,enc,dec,G,w,pre,lamf,zero in [(F1,e1,d1,P1,64,"g1",lam1,None),(F2,e2,d2,P2,128,"g2",lam2,None)]:
    zero=enc(F.zero)+enc(F.one)+enc(F.zero)
    lines=[];exp=[]
    for it in range(150):
        a=random.choice(special_scalars()+[random.randrange(r)]*3)
        rel=random.choice(['ind','eq','opp','id','dbl','idA'])
        b={'ind':random.randrange(r),'eq':a,'opp':(-a)%r,'id':0,'dbl':2*a%r,'idA':random.randrange(r)}[rel]
        if rel=='idA': a=0
        A=cmul(F,a,G); B=cmul(F,b,G)
        def rep(P):
            if P is None:
                k=random.choice([0,1])
                if k==0: return zero
                return enc(F.mul(lamf(),lamf()))+enc(lamf())+enc(F.zero)   # arbitrary x,y with z=0
            k=random.choice([0,1,1])
            return jac(F,enc,P,None if k==0 else lamf())
        for op,E in [("add",cadd(F,A,B)),("sub",cadd(F,A,cneg(F,B)))]:
            lines.append(f"{pre}.{op} {rep(A)} {rep(B)}"); exp.append(E)
    out=run(lines)
    for l,o,E in zip(lines,out,exp):
        n+=1
        if o.startswith("panic"): print("PANIC",l[:30],o); bad+=1; continue
        got=unjac(F,dec,o,w)
        if got!=E:
            bad+=1
            if bad<6: print("MISMATCH",l[:200],o[:80])
    # scalar mul
    lines=[];exp=[]
    for it in range(60):
        a=random.randrange(r); k=random.choice(special_scalars()+[random.randrange(r)]*4)
        A=cmul(F,a,G)
        lines.append(f"{pre}.mul {jac(F,enc,A,random.choice([None,lamf()]))} {h32(k)}"); exp.append(cmul(F,k*a%r,G))
    out=run(lines)
    for l,o,E in zip(lines,out,exp):
        n+=1
        got=unjac(F,dec,o,w)
        if got!=E:
            bad+=1; print("MULMISMATCH",l[-64:],o[:80])
print("checked",n,"bad",bad)
