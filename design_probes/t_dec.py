import random, subprocess, sys
from grp import *
random.seed(int(sys.argv[1]) if len(sys.argv)>1 else 1)
def run(lines):
    out=subprocess.run(["./target/release/probe"],input=("\n".join(lines)+"\n").encode(),capture_output=True).stdout.decode().split("\n")
    return out[:len(lines)]
h=2*q-r
def rand_twist():
    while True:
        x=(random.randrange(q),random.randrange(q))
        y2=f2add(f2mul(f2mul(x,x),x),F2.b)
        y=f2sqrt_ts(y2)
        if y is not None: return (x,y)
T=rand_twist(); assert oncurve(F2,T)
assert cmul(F2,r*h,T) is None
pts={}
pts['twist_random']=T
pts['cofactor_cleared']=cmul(F2,h,T)     # in G2
o13=cmul(F2,r*(h//13),T); pts['ord13']=o13
o1621=cmul(F2,r*(h//1621),T); pts['ord1621']=o1621
pts['ord13x1621']=cadd(F2,o13,o1621) if o13 and o1621 else None
pts['sub+13']=cadd(F2,cmul(F2,12345,P2),o13) if o13 else None
pts['G2gen']=P2
pts['r_part_only']=cmul(F2,h,T)
big=cmul(F2,r*13*1621,T); pts['ord_bigfactor']=big
for k,v in pts.items(): print(k, None if v is None else oncurve(F2,v), None if v is None else (cmul(F2,r,v) is None))
lines=[];exp=[]
for k,v in pts.items():
    if v is None: continue
    ins = cmul(F2,r,v) is None
    lines.append(f"ag2.new {e2(v[0])} {e2(v[1])}"); exp.append((k,str(ins).lower()))
    lines.append(f"g2.from_slice {e2(v[0])+e2(v[1])}"); exp.append((k,ins))
    lines.append(f"g2.from_unc 04{e2(v[0])+e2(v[1])}"); exp.append((k,ins))
    pre = "02" if v[1][0]%2==0 else "03"
    lines.append(f"g2.from_comp {pre}{e2(v[0])}"); exp.append((k,ins))
out=run(lines)
for l,o,(k,e) in zip(lines,out,exp):
    acc = (o=="true") if l.startswith("ag2") else (not o.startswith("err") and not o.startswith("panic"))
    want = (e=="true") if isinstance(e,str) else e
    print(k,l.split()[0],"accepted" if acc else o[:30],"OK" if acc==want else "WRONG")
# round trips + format for G1/G2
lines=[];exp=[]
for it in range(40):
    a=random.randrange(1,r)
    A=cmul(F1,a,P1); B=cmul(F2,a,P2)
    l1=random.choice([None,random.randrange(1,q)]); l2=random.choice([None,(random.randrange(q),random.randrange(q))])
    lines.append(f"g1.to_slice {jac(F1,e1,A,l1)}"); exp.append(e1(A[0])+e1(A[1]))
    lines.append(f"g1.to_comp {jac(F1,e1,A,l1)}"); exp.append(("02" if A[1]%2==0 else "03")+e1(A[0]))
    lines.append(f"g2.to_slice {jac(F2,e2,B,l2)}"); exp.append(e2(B[0])+e2(B[1]))
    lines.append(f"g2.to_comp {jac(F2,e2,B,l2)}"); exp.append(("02" if B[1][0]%2==0 else "03")+e2(B[0]))
    lines.append(f"g1.from_comp {('02' if A[1]%2==0 else '03')+e1(A[0])}"); exp.append(jac(F1,e1,A))
    lines.append(f"g2.from_comp {('02' if B[1][0]%2==0 else '03')+e2(B[0])}"); exp.append(jac(F2,e2,B))
    lines.append(f"g1.from_comp {('03' if A[1]%2==0 else '02')+e1(A[0])}"); exp.append(jac(F1,e1,cneg(F1,A)))
out=run(lines); bad=0
for l,o,e in zip(lines,out,exp):
    if o!=e: bad+=1; print("FMT MISMATCH",l[:60],o[:60],e[:60])
print("format checks",len(lines),"bad",bad)
# malformed lengths
lines=[]
for L in list(range(0,141)):
    bs=random.randbytes(L).hex() or "-"
    for d in ["g1.from_slice","g1.from_unc","g1.from_comp","g2.from_slice","g2.from_unc","g2.from_comp"]:
        lines.append(f"{d} {bs}")
out=run(lines)
from collections import Counter
print(Counter((l.split()[0], o.split()[0] if o.startswith(("err","panic")) else "ok") for l,o in zip(lines,out)))
