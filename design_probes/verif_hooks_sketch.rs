//! Verification-only re-exports (compiled only with `--cfg john_yu_sm9_core_verif`).
pub use crate::fields::{FieldElement, Fq as RawFq, Fq12, Fq2 as RawFq2, Fq4, Fr as RawFr};
pub use crate::groups::{G1 as RawG1, G2 as RawG2};
pub use crate::pairings::verif::*;
use crate::pairings::G2Prepared;

pub fn g1_inner(g: &crate::G1) -> RawG1 { g.0 }
pub fn g2_inner(g: &crate::G2) -> RawG2 { g.0 }
pub fn gt_inner(g: &crate::Gt) -> Fq12 { g.0 }
pub fn gt_from(f: Fq12) -> crate::Gt { crate::Gt(f) }
pub fn fr_limbs(x: &crate::Fr) -> [u64; 4] { let r = x.0.raw(); [r[0], r[1], r[2], r[3]] }
pub fn fq_limbs(x: &crate::Fq) -> [u64; 4] { let r = x.0.raw(); [r[0], r[1], r[2], r[3]] }
pub fn miller_loop_jacobian(q: &RawG2, p: &RawG1) -> Fq12 { q.miller_loop(p) }
pub fn miller_loop_prepared(q: &G2Prepared, p: &RawG1) -> Fq12 { q.miller_loop(p) }
pub fn prepare_raw(q: RawG2) -> G2Prepared { G2Prepared::from(q) }
