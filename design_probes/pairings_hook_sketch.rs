        fast_pairing(&g1, &g2);
    }
}

#[cfg(john_yu_sm9_core_verif)]
pub mod verif {
    use super::*;
    pub fn fq12_pow_u128(x: &Fq12, e: u128) -> Fq12 {
        x.pow(e)
    }
    pub fn first_chunk(x: &Fq12) -> Option<Fq12> {
        x.final_exponentiation_first_chunk()
    }
    pub fn last_chunk_gmssl(x: &Fq12) -> Fq12 {
        x.final_exponentiation_last_chunk()
    }
    pub fn last_chunk_miracl(x: &Fq12) -> Fq12 {
        x.final_exp_last_chunk()
    }
}
