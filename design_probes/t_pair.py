import random, subprocess, sys
from grp import *
import rm
random.seed(int(sys.argv[1]) if len(sys.argv)>1 else 1)
def run(lines):
    out=subprocess.run(["./target/release/probe"],input=("\n".join(lines)+"\n").encode(),capture_output=True).stdout.decode().split("\n")
    return out[:len(lines)]
lines=[];exp=[]
S=[0,1,2,r-1,r-2,(r-1)//2,2**255,2**64-1]
z1=e1(0)+e1(1)+e1(0); z2=e2((0,0))+e2((1,0))+e2((0,0))
for it in range(24):
    a=random.choice(S+[random.randrange(r)]*6); b=random.choice(S+[random.randrange(r)]*6)
    A=cmul(F1,a,P1); B=cmul(F2,b,P2)
    g=rm.pairing(A,B)
    l1=random.choice([None,random.randrange(1,q),q-1]); l2=random.choice([None,(random.randrange(q),random.randrange(q))])
    ja = jac(F1,e1,A,l1) if A else random.choice([z1, e1(random.randrange(q))+e1(random.randrange(q))+e1(0)])
    jb = jac(F2,e2,B,l2) if B else random.choice([z2, e2((random.randrange(q),random.randrange(q)))+e2((random.randrange(q),random.randrange(q)))+e2((0,0))])
    for op in ["pair","fast","prep"]:
        lines.append(f"{op} {ja} {jb}"); exp.append((a,b,rm.ser(g).hex()))
out=run(lines); bad=0
for l,o,(a,b,e) in zip(lines,out,exp):
    if o!=e:
        bad+=1; print("MISMATCH",l.split()[0],"a=%x b=%x"%(a,b),o[:40])
print("checked",len(lines),"bad",bad)
