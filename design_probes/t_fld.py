import random, subprocess, sys
from grp import *
random.seed(int(sys.argv[1]) if len(sys.argv)>1 else 1)
def run(lines):
    out=subprocess.run(["./target/release/probe"],input=("\n".join(lines)+"\n").encode(),capture_output=True).stdout.decode().split("\n")
    return out[:len(lines)]
def limbs(p):
    pl=[(p>>(64*i))&(2**64-1) for i in range(4)]
    S=[0,1,2,2**63,2**63-1,2**63+1,2**64-1,2**64-2,2**32,2**32-1]
    def one():
        v=0
        for i in range(4):
            c=random.choice(S+[pl[i],(pl[i]+1)%2**64,(pl[i]-1)%2**64,random.getrandbits(64)])
            v|=c<<(64*i)
        return v
    return one
def gen(p):
    lg=limbs(p); Rinv=pow(R,-1,p)
    def g():
        k=random.randrange(8)
        if k==0: return random.choice([0,1,2,p-1,p-2,(p-1)//2,(p+1)//2,R%p,(R-1)%p,(-R)%p,2**255,2**255-1])
        if k==1: return random.randrange(p)
        if k in (2,3):
            v=lg()
            return v%p
        if k in (4,5):  # target montgomery repr
            m=lg()
            if m>=p: m=p-1-(m%1000)
            return m*Rinv%p
        if k==6: return (p-1-random.randrange(1000))
        m=p-1-random.randrange(1000); return m*Rinv%p
    return g
bad=0;n=0
for name,p in [("fr",r),("fq",q)]:
    g=gen(p); lines=[];exp=[]
    for it in range(4000):
        a=g(); b=random.choice([g(),a,(-a)%p,(a+1)%p,(p-a+1)%p])
        op=random.choice(["add","sub","mul","neg","inv","pow"]+(["sqrt"] if name=="fq" else []))
        if op=="add": e=h32((a+b)%p)
        elif op=="sub": e=h32((a-b)%p)
        elif op=="mul": e=h32(a*b%p)
        elif op=="neg": e=h32((-a)%p)
        elif op=="inv": e="none" if a==0 else h32(pow(a,-1,p))
        elif op=="pow": e=h32(pow(a,b,p))
        elif op=="sqrt":
            e=None
        lines.append(f"{name}.{op} {h32(a)} {h32(b)}"); exp.append((op,a,e))
    out=run(lines)
    for l,o,(op,a,e) in zip(lines,out,exp):
        n+=1
        if op=="sqrt":
            issq = a==0 or pow(a,(p-1)//2,p)==1
            if issq:
                ok = o!="none" and not o.startswith("panic") and pow(int(o,16),2,p)==a
            else: ok = o=="none"
        else: ok = o==e
        if not ok:
            bad+=1
            if bad<8: print("MISMATCH",l,o,e)
# fq2 mul & sqrt
g=gen(q); lines=[];exp=[]
for it in range(3000):
    a=(g(),random.choice([g(),0])); b=(g(),g())
    if random.random()<0.5:
        lines.append(f"fq2.mul {e2(a)} {e2(b)}"); exp.append(("mul",e2(f2mul(a,b))))
    else:
        x=random.choice([a,f2mul(b,b),(g(),0),(0,g())])
        lines.append(f"fq2.sqrt {e2(x)} -"); exp.append(("sqrt",x))
out=run(lines)
from collections import Counter
c=Counter()
for l,o,(op,e) in zip(lines,out,exp):
    n+=1
    if op=="mul": ok=o==e
    else:
        if f2issq(e): ok = o!="none" and not o.startswith("panic") and f2mul(d2(o),d2(o))==e
        else: ok = o=="none"
        c[(f2issq(e), e[1]==0, ok)]+=1
    if not ok:
        bad+=1
        if bad<8: print("MISMATCH",l[:120],o[:40])
print("fq2 sqrt (issq, real, ok):",sorted(c.items()))
# conversions
lines=[];exp=[]
for L in range(0,71):
    for _ in range(6):
        k=random.randrange(5)
        bs=bytes([0]*L) if k==0 else bytes([255]*L) if k==1 else random.randbytes(L)
        if k==3 and L>=32:
            v=random.choice([r-1,r,r+1,q-1,q,q+1,2**256-1, (2**(8*L)-1)//r*r, (2**(8*L)-1)//(r-1)*(r-1), (2**(8*L)-1)//(r-1)*(r-1)-1])
            bs=v.to_bytes(L,'big') if v<2**(8*L) else bs
        v=int.from_bytes(bs,'big'); hb=bs.hex() if L else "-"
        lines.append(f"fr.from_slice {hb}"); exp.append(h32(v%r) if 1<=L<=64 else "none")
        lines.append(f"fq.from_slice {hb}"); exp.append(h32(v%q) if 1<=L<=64 else "none")
        lines.append(f"fr.from_hash {hb}"); exp.append(h32(v%(r-1)+1) if L<=64 else "none")
for s in ["0","1","10","00012","115792089237316195423570985008687907853269984665640564039457584007913129639936"*2,"12a","-1","+1"," 1","1 ","１","1_0","٣","9"*160,""]:
    lines.append("fr.from_str "+(s.encode().hex() or "-"))
    exp.append(h32(int(s)%r) if s.isascii() and s.isdigit() else ("?" if s=="" else "err"))
out=run(lines)
for l,o,e in zip(lines,out,exp):
    n+=1
    if e!="?" and o!=e:
        bad+=1
        if bad<12: print("CONV MISMATCH",l[:100],o,e)
print("checked",n,"bad",bad)
