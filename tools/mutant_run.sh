#!/bin/bash
# usage: tools/mutant_run.sh <patch> <check ids...>   — applies the patch to /repo, runs the quick checks, ALWAYS restores /repo
set -u
patch=$(readlink -f "$1"); shift
cd /verif
if ! git -C /repo diff --quiet; then echo "/repo has uncommitted changes; refusing"; exit 3; fi
restore() { git -C /repo checkout -- . ; }
trap restore EXIT
if ! git -C /repo apply "$patch"; then echo "patch does not apply"; exit 3; fi
tier=${MUT_TIER:-quick}
for id in "$@"; do
  out=$(./check "$id" --tier "$tier" 2>&1); rc=$?
  first=$(echo "$out" | grep -m1 "violation:" | cut -c1-260)
  echo "$(basename "$patch") $id rc=$rc $(echo "$out" | grep -c '^VIOLATION') violations | $first"
done
