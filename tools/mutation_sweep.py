#!/usr/bin/env python3
"""tools/mutation_sweep.py gen N SEED      -> /tmp/mutsweep/cand/NNN.patch  (N syntactic mutants of /repo's non-test source, HEAD)
tools/mutation_sweep.py filter WORKERS   -> keeps the mutants that COMPILE and PASS the repository's own test suite
                                            (scratch worktrees /tmp/wt_mut<i>, removed afterwards) in /verif/mutants/auto/
tools/mutation_sweep.py run [ids...]     -> applies each surviving mutant to /repo, runs the quick checks mapped to the mutated file
                                            (and all 18 if none of them reports it), restores /repo; writes mutants/auto/RESULTS.md

Classical mutation operators (relational, arithmetic, logical, constant, statement deletion, negation removal, shift direction).
A surviving mutant that no check reports is either equivalent (the change cannot alter any observable behaviour) or a gap; each
one is read by hand and classified in DESIGN.md."""
import glob, json, os, random, re, shutil, subprocess, sys
from concurrent.futures import ThreadPoolExecutor

REPO = '/repo'
V = os.path.dirname(os.path.dirname(os.path.abspath(__file__)))
WORK = '/tmp/mutsweep'
AUTO = os.path.join(V, 'mutants', 'auto')
FILES = {   # file: (first line, last line) of non-test, non-hook code (1-based, inclusive); None = to the end
    'src/arith.rs': (1, None), 'src/u256.rs': (1, None), 'src/u512.rs': (1, None), 'src/fields.rs': (17, 115),
    'src/fields/fp.rs': (1, None), 'src/fields/fq2.rs': (1, None), 'src/fields/fq4.rs': (1, None), 'src/fields/fq12.rs': (1, None),
    'src/groups.rs': (1, 501), 'src/lib.rs': (30, 943), 'src/pairings.rs': (1, 417),
}
CHECKS = {
    'src/arith.rs': ['C06', 'C07', 'C12'], 'src/u256.rs': ['C06', 'C07', 'C13'], 'src/u512.rs': ['C13', 'C07', 'C06'],
    'src/fields.rs': ['C06', 'C14', 'C17'], 'src/fields/fp.rs': ['C06', 'C07', 'C13', 'C14'], 'src/fields/fq2.rs': ['C12', 'C14', 'C07'],
    'src/fields/fq4.rs': ['C17', 'C11'], 'src/fields/fq12.rs': ['C17', 'C11', 'C02'], 'src/groups.rs': ['C04', 'C05', 'C15', 'C16', 'C09'],
    'src/lib.rs': ['C08', 'C10', 'C13', 'C09', 'C15', 'C11'], 'src/pairings.rs': ['C02', 'C03', 'C01', 'C17'],
}
ALL = ['C%02d' % i for i in range(1, 19)]

OPS = [
    ('rel', r'(?<![<>=!\-])<=(?!=)', '<'), ('rel', r'(?<![<>=!\-])>=(?!=)', '>'), ('rel', r'(?<![<>=!&\-:\w)\]] )<(?![<=:])\s', None),
    ('rel', r' < ', ' <= '), ('rel', r' > ', ' >= '), ('eq', r' == ', ' != '), ('eq', r' != ', ' == '),
    ('logic', r' && ', ' || '), ('logic', r' \|\| ', ' && '),
    ('arith', r' \+ ', ' - '), ('arith', r' - ', ' + '), ('arith', r' \* ', ' + '), ('arith', r' \+= ', ' -= '), ('arith', r' -= ', ' += '),
    ('shift', r' >> ', ' << '), ('shift', r' << ', ' >> '), ('bit', r' & ', ' | '), ('bit', r' \| ', ' & '), ('bit', r' \^ ', ' | '),
    ('const', r'\b0\b(?![.x])', '1'), ('const', r'\b1\b(?![.x])', '0'), ('const', r'\b1\b(?![.x])', '2'), ('const', r'\b2\b(?![.x])', '3'),
    ('const', r'\b63\b', '64'), ('const', r'\b64\b', '63'), ('const', r'\b3\b', '4'), ('const', r'\b4\b', '3'), ('const', r'\b255\b', '256'),
    ('const', r'\b256\b', '255'), ('const', r'\b32\b', '31'), ('const', r'\b128\b', '127'),
    ('bool', r'\btrue\b', 'false'), ('bool', r'\bfalse\b', 'true'), ('neg', r'(?<![=!<>])!(?=[a-zA-Z(])', ''),
    ('call', r'\.is_zero\(\)', '.is_one()'), ('call', r'\.double\(\)', '.triple()'), ('call', r'\.squared\(\)', '.double()'),
    ('call', r'\.neg\(\)', ''), ('ret', r'return ([A-Za-z_:]+)\(', None),
]


BASE = WORK + '/base'      # export of /repo HEAD (the working tree may carry a patch of another job)


def export_base():
    shutil.rmtree(BASE, ignore_errors=True)
    os.makedirs(BASE)
    subprocess.run('git -C %s archive HEAD src | tar -x -C %s' % (REPO, BASE), shell=True, check=True)


def code_lines(path, span):
    lines = open(os.path.join(BASE, path), newline='').read().split('\n')
    lo, hi = span
    hi = hi or len(lines)
    out = []
    in_block_comment = False
    for i in range(lo - 1, min(hi, len(lines))):
        l = lines[i]
        t = l.strip()
        if in_block_comment:
            if '*/' in t:
                in_block_comment = False
            continue
        if t.startswith('/*'):
            in_block_comment = '*/' not in t
            continue
        if not t or t.startswith('//') or t.startswith('#[') or t.startswith('use ') or t.startswith('extern ') or 'assert' in t or 'expect(' in t and 'static' in t:
            continue
        out.append(i)
    return lines, out


def gen(n, seed):
    rng = random.Random(seed)
    os.makedirs(WORK + '/cand', exist_ok=True)
    export_base()
    pool = []
    for f, span in FILES.items():
        lines, idx = code_lines(f, span)
        for i in idx:
            code = lines[i].split('//')[0]
            for kind, pat, rep in OPS:
                if rep is None:
                    continue
                for m in re.finditer(pat, code):
                    pool.append((f, i, kind, m.start(), m.end(), rep))
            t = code.strip()
            # statement deletion: a complete statement on one line that is a call or an assignment (not a let binding / return / brace)
            if t.endswith(';') and not t.startswith(('let ', 'return', 'pub ', 'const ', 'static ', 'type ', 'break', 'continue')) and t.count('(') == t.count(')') and '{' not in t and '}' not in t:
                pool.append((f, i, 'delete', 0, 0, None))
    # stratify: equal share per (file, kind) bucket so that the many constant sites do not dominate
    buckets = {}
    for c in pool:
        buckets.setdefault((c[0], c[2]), []).append(c)
    keys = sorted(buckets)
    chosen, seen = [], set()
    prefix = os.environ.get('MUT_PREFIX', 'A')
    earlier = set()          # mutants of earlier sweeps (other prefixes) are not generated again
    for pj in glob.glob(WORK + '/cand/*.json'):
        m = json.load(open(pj))
        if not m['id'].startswith(prefix):
            earlier.add((m['file'], m['line'], m['after']))
    while len(chosen) < n and keys:
        k = keys[rng.randrange(len(keys))]
        b = buckets[k]
        c = b.pop(rng.randrange(len(b)))
        if not b:
            keys.remove(k)
        if (c[0], c[1], c[3], c[5]) in seen:
            continue
        seen.add((c[0], c[1], c[3], c[5]))
        chosen.append(c)
    for j, (f, i, kind, a, b, rep) in enumerate(chosen):
        lines = open(os.path.join(BASE, f), newline='').read().split('\n')
        old = lines[i]
        if kind == 'delete':
            eol = '\r' if old.endswith('\r') else ''
            new = old[:len(old) - len(old.lstrip())] + '// (statement removed)' + eol
        else:
            new = old[:a] + rep + old[b:]
        if new == old or (f, i + 1, new.strip()[:200]) in earlier:
            continue
        lines[i] = new
        tmp = WORK + '/tmp_%d' % j
        os.makedirs(os.path.dirname(tmp + '/' + f), exist_ok=True)
        open(tmp + '/' + f, 'w', newline='').write('\n'.join(lines))
        p = subprocess.run(['git', 'diff', '--no-index', '--', os.path.join(BASE, f), tmp + '/' + f], stdout=subprocess.PIPE)
        d = p.stdout.decode('utf-8', 'surrogateescape').replace('a' + os.path.join(BASE, f), 'a/' + f).replace('b' + tmp + '/' + f, 'b/' + f)
        d = '\n'.join(l for l in d.split('\n') if not l.startswith('index ') and not l.startswith('diff --git'))
        d = 'diff --git a/%s b/%s\n' % (f, f) + d
        mid = '%s%03d' % (prefix, j)
        open(WORK + '/cand/%s.patch' % mid, 'w', newline='', encoding='utf-8', errors='surrogateescape').write(d)
        json.dump({'id': mid, 'file': f, 'line': i + 1, 'kind': kind, 'before': old.strip()[:200], 'after': new.strip()[:200]}, open(WORK + '/cand/%s.json' % mid, 'w'))
        shutil.rmtree(tmp)
    print('generated', len(glob.glob(WORK + '/cand/*.patch')), 'candidates from a pool of', len(pool))


def sh(cmd, cwd=None, timeout=None):
    # own process group: a mutant whose tests spin forever must be killed together with the test binaries cargo started
    import signal
    p = subprocess.Popen(cmd, shell=True, cwd=cwd, stdout=subprocess.PIPE, stderr=subprocess.STDOUT, text=True, start_new_session=True)
    try:
        out, _ = p.communicate(timeout=timeout)
        return p.returncode, out
    except subprocess.TimeoutExpired:
        try:
            os.killpg(p.pid, signal.SIGKILL)
        except OSError:
            pass
        p.communicate()
        return 124, 'timeout'


def filt(workers, only=None):
    os.makedirs(AUTO, exist_ok=True)
    cands = sorted(glob.glob(WORK + '/cand/%s*.patch' % os.environ.get('MUT_PREFIX', 'A')))
    if only:
        cands = [c for c in cands if os.path.basename(c)[:-6] in only]
    wts = []
    for w in range(workers):
        wt = '/tmp/wt_mut%d' % w
        sh('git -C %s worktree remove --force %s' % (REPO, wt))
        rc, out = sh('git -C %s worktree add --detach %s HEAD' % (REPO, wt))
        assert rc == 0, out
        shutil.copy(REPO + '/Cargo.lock', wt + '/Cargo.lock')
        wts.append(wt)

    def work(w):
        wt = wts[w]
        res = []
        for c in cands[w::workers]:
            mid = os.path.basename(c)[:-6]
            sh('git checkout -q -- .', wt)
            rc, out = sh('git apply %s' % c, wt)
            if rc != 0:
                res.append((mid, 'noapply'))
                continue
            rc, out = sh('cargo build --offline 2>&1', wt, 600)
            if rc != 0:
                res.append((mid, 'nocompile'))
                continue
            rc, out = sh('cargo test --workspace --offline 2>&1', wt, 420)
            verdict = 'survives-tests' if rc == 0 else ('timeout' if rc == 124 else 'killed-by-tests')
            res.append((mid, verdict))
            print(mid, verdict, flush=True)
            if verdict == 'survives-tests':
                shutil.copy(c, AUTO + '/%s.patch' % mid)
                shutil.copy(c[:-6] + '.json', AUTO + '/%s.json' % mid)
        return res

    with ThreadPoolExecutor(max_workers=workers) as ex:
        allres = [r for rs in ex.map(work, range(workers)) for r in rs]
    for wt in wts:
        sh('git -C %s worktree remove --force %s' % (REPO, wt))
    import collections
    prev = json.load(open(AUTO + '/FILTER.json'))['results'] if os.path.exists(AUTO + '/FILTER.json') else {}
    prev.update(dict(allres))
    cnt = collections.Counter(prev.values())
    json.dump({'counts': cnt, 'results': prev}, open(AUTO + '/FILTER.json', 'w'), indent=1)
    print('filter finished:', dict(cnt))


def run(ids):
    ids = ids or sorted(os.path.basename(p)[:-6] for p in glob.glob(AUTO + '/%s*.patch' % os.environ.get('MUT_PREFIX', 'A')))
    for mid in ids:
        meta = json.load(open(AUTO + '/%s.json' % mid))
        assert subprocess.run(['git', '-C', REPO, 'diff', '--quiet']).returncode == 0, '/repo dirty'
        res = {}
        try:
            subprocess.run(['git', '-C', REPO, 'apply', AUTO + '/%s.patch' % mid], check=True)
            first = CHECKS[meta['file']]
            rest = [c for c in ALL if c not in first]
            if os.environ.get('MUT_MAPPED_ONLY'):
                rest = [c for c in ('C07', 'C06', 'C18') if c not in first]      # quick pass: mapped checks + the broadest three
            for c in first + rest:
                p = subprocess.run(['./check', c, '--tier', 'quick'], cwd=V, stdout=subprocess.PIPE, stderr=subprocess.STDOUT, text=True)
                v = [l.strip() for l in p.stdout.splitlines() if 'violation:' in l][:1]
                res[c] = {'rc': p.returncode, 'first': v[0][:240] if v else ''}
                if p.returncode == 1:
                    break          # reported: the remaining checks are not needed for the table
        finally:
            subprocess.run(['git', '-C', REPO, 'checkout', '--', '.'])
        meta['checks_run'] = res
        meta['reported_by'] = [c for c, r in res.items() if r['rc'] == 1]
        json.dump(meta, open(AUTO + '/%s.json' % mid, 'w'), indent=1)
        print(mid, meta['file'], meta['line'], meta['kind'], 'reported by', meta['reported_by'] or 'NONE', {c: r['rc'] for c, r in res.items() if r['rc'] not in (0, 1)}, flush=True)
    table()


def table():
    rows = []
    for p in sorted(glob.glob(AUTO + '/[A-Z][0-9]*.json')):
        m = json.load(open(p))
        rows.append('| %s | %s:%d | %s | `%s` -> `%s` | %s | %s |' % (m['id'], m['file'], m['line'], m['kind'], m['before'][:70].replace('|', '\\|'), m['after'][:70].replace('|', '\\|'),
                                                             ', '.join(m.get('reported_by', [])) or '**none**', m.get('classification', '')))
    filt_ = json.load(open(AUTO + '/FILTER.json')) if os.path.exists(AUTO + '/FILTER.json') else {}
    open(AUTO + '/RESULTS.md', 'w').write('# Automatic mutation sweep\n\nfilter (compile + the repository\'s own 66 tests): %s\n\n'
                                          '| id | site | operator | change | reported by (first check that reports it) | classification if unreported |\n|---|---|---|---|---|---|\n' % json.dumps(filt_.get('counts', {})) + '\n'.join(rows) + '\n')


if __name__ == '__main__':
    cmd = sys.argv[1]
    if cmd == 'gen':
        gen(int(sys.argv[2]), int(sys.argv[3]))
    elif cmd == 'filter':
        filt(int(sys.argv[2]), set(sys.argv[3:]))
    elif cmd == 'run':
        run(sys.argv[2:])
    elif cmd == 'table':
        table()
