#!/bin/bash
# usage: tools/benign_thorough.sh "<benign id>:<check>,<check>" ... — thorough tier of selected checks on selected behaviour-preserving patches
# (applies each patch to /repo and restores it). Every run must exit 0.
cd /verif
restore() { git -C /repo checkout -- . ; }
trap restore EXIT
for spec in "$@"; do
  b=${spec%%:*}; cs=${spec#*:}
  if ! git -C /repo diff --quiet; then echo "/repo dirty"; exit 3; fi
  git -C /repo apply /verif/benign/$b/patch.diff || { echo "$b APPLYFAIL"; continue; }
  for id in ${cs//,/ }; do
    t0=$(date +%s)
    out=$(./check $id --tier thorough --seed ${SEED:-3} 2>&1); rc=$?
    echo "$b $id thorough rc=$rc wall=$(( $(date +%s) - t0 ))s $(echo "$out" | grep -m1 -E 'violation:|INCONCLUSIVE' | cut -c1-300)"
  done
  restore
done
