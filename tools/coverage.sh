#!/bin/bash
# Coverage audit: which lines of /repo/src do the quick workloads execute? (not a check; run by hand after generator changes)
set -e
cd /verif
OUT=${1:-/tmp/sm9cov}
rm -rf "$OUT"; mkdir -p "$OUT"
export VERIF_RELEASE_FLAVOUR=cov LLVM_PROFILE_FILE="$OUT/%p-%m.profraw"
for id in C01 C02 C03 C04 C05 C06 C07 C08 C09 C10 C11 C12 C13 C14 C15 C16 C17; do ./check $id --tier quick | tail -1; done
BIN=$(ls -d ~/.rustup/toolchains/nightly-x86_64-unknown-linux-gnu/lib/rustlib/x86_64-unknown-linux-gnu/bin)
$BIN/llvm-profdata merge -sparse "$OUT"/*.profraw -o "$OUT/merged.profdata"
$BIN/llvm-cov report executor/target-cov/release/sm9exec -instr-profile="$OUT/merged.profdata" /repo/src > "$OUT/report.txt" 2>/dev/null || true
$BIN/llvm-cov show executor/target-cov/release/sm9exec -instr-profile="$OUT/merged.profdata" /repo/src --show-line-counts-or-regions > "$OUT/show.txt" 2>/dev/null || true
cat "$OUT/report.txt"
