#!/usr/bin/env python3
"""tools/seed_eval.py <seed dir produced by a sub-agent> <id> <check ids...>
Confirms a seeded change in a scratch worktree (existing tests pass with it; its demonstration fails with it and passes without),
stores it under /verif/seeded/<id>/ and runs the named quick checks against it (patch applied to /repo and undone straight afterwards)."""
import json, os, shutil, subprocess, sys, time

seed, sid = sys.argv[1], sys.argv[2]
checks = sys.argv[3:]
WT = '/tmp/wt_eval'
dst = '/verif/seeded/' + sid
os.makedirs(dst, exist_ok=True)
for f in ('patch.diff', 'demo.rs', 'meta.json'):
    if os.path.abspath(seed) != os.path.abspath(dst):
        shutil.copy(os.path.join(seed, f), os.path.join(dst, f))
meta = json.load(open(os.path.join(dst, 'meta.json')))


def sh(cmd, cwd=None):
    p = subprocess.run(cmd, shell=True, cwd=cwd, stdout=subprocess.PIPE, stderr=subprocess.STDOUT, text=True)
    return p.returncode, p.stdout


def reset():
    sh('git checkout -q -- . && rm -f tests/seed_demo.rs', WT)


conf = {}
if os.environ.get('SKIP_CONFIRM') != '1':
    reset()
    rc, out = sh('git apply %s/patch.diff' % dst, WT)
    conf['patch_applies'] = rc == 0
    rc, out = sh('cargo test --workspace --no-fail-fast --offline 2>&1', WT)
    res = [l for l in out.splitlines() if l.startswith('test result')]
    conf['suite_with_patch'] = res
    conf['suite_passes_with_patch'] = rc == 0 and all(' 0 failed' in l for l in res) and len(res) >= 3
    loc = (meta.get('demo_location') or '').split(' ')[0] or None
    demo_cmd = 'cargo test --offline --test seed_demo 2>&1'

    def place_demo():
        if loc:   # in-crate unit test: appended to a source file
            with open(os.path.join(WT, loc), 'a') as f:
                f.write('\n' + open(os.path.join(dst, 'demo.rs')).read())
        else:
            shutil.copy(os.path.join(dst, 'demo.rs'), os.path.join(WT, 'tests/seed_demo.rs'))
    if loc:
        demo_cmd = 'cargo test --offline --lib seed_demo 2>&1'
    place_demo()
    rc, out = sh(demo_cmd, WT)
    conf['demo_fails_with_patch'] = rc != 0 and 'test result: FAILED' in out
    sh('git checkout -q -- src', WT)
    if loc:
        place_demo()
    rc, out = sh(demo_cmd, WT)
    import re
    npass = sum(int(m) for m in re.findall(r'test result: ok\. (\d+) passed', out))
    conf['demo_passes_without_patch'] = rc == 0 and npass > 0
    reset()
    meta['confirmed'] = conf
    print(sid, 'confirmed:', {k: v for k, v in conf.items() if k != 'suite_with_patch'})

det = {}
if checks:
    rc, out = sh('git -C /repo diff --quiet')
    assert rc == 0, '/repo dirty'
    try:
        rc, out = sh('git -C /repo apply %s/patch.diff' % dst)
        assert rc == 0, out
        for c in checks:
            t0 = time.time()
            rc, out = sh('./check %s --tier %s' % (c, os.environ.get('MUT_TIER', 'quick')), '/verif')
            first = [l.strip() for l in out.splitlines() if 'violation:' in l][:1]
            det[c] = {'rc': rc, 'violations': out.count('\nVIOLATION') + out.startswith('VIOLATION'), 'first': (first[0][:300] if first else ''), 'wall_s': round(time.time() - t0, 1)}
            print(sid, c, 'rc=%d' % rc, det[c]['first'][:200])
    finally:
        sh('git -C /repo checkout -- .')
    meta.setdefault('checks_run', {}).update(det)
json.dump(meta, open(os.path.join(dst, 'meta.json'), 'w'), indent=1)
