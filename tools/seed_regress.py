#!/usr/bin/env python3
"""Regression sweep: every seeded change must still be reported by the checks that reported it before.
usage: tools/seed_regress.py [ids...]   (default: all of seeded/*)   — applies each patch to /repo, runs the checks, restores /repo."""
import glob, json, os, subprocess, sys
V = os.path.dirname(os.path.dirname(os.path.abspath(__file__)))
ids = sys.argv[1:] or sorted(os.path.basename(os.path.dirname(p)) for p in glob.glob(V + '/seeded/*/meta.json'))
bad = 0
for sid in ids:
    d = os.path.join(V, 'seeded', sid)
    m = json.load(open(d + '/meta.json'))
    want = sorted(c for c, r in m.get('checks_run', {}).items() if r['rc'] == 1)
    if not want:
        print(sid, 'no check is expected to report it (documented as undetected)')
        continue
    assert subprocess.run(['git', '-C', os.environ.get('SM9_REPO', '/repo'), 'diff', '--quiet']).returncode == 0, '/repo dirty'
    try:
        subprocess.run(['git', '-C', os.environ.get('SM9_REPO', '/repo'), 'apply', d + '/patch.diff'], check=True)
        for c in want[:2]:
            p = subprocess.run(['./check', c, '--tier', 'quick'], cwd=V, stdout=subprocess.PIPE, stderr=subprocess.STDOUT, text=True)
            ok = p.returncode == 1 and 'VIOLATION property=' + c in p.stdout
            print(sid, c, 'reported' if ok else 'NOT REPORTED rc=%d' % p.returncode, flush=True)
            if not ok:
                bad += 1
    finally:
        subprocess.run(['git', '-C', os.environ.get('SM9_REPO', '/repo'), 'checkout', '--', '.'])
print('regression sweep finished,', bad, 'no longer reported')
