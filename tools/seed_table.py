#!/usr/bin/env python3
"""Writes seeded/RESULTS.md from seeded/*/meta.json (which checks were run against each seeded change and what they reported)."""
import glob, json, os
V = os.path.dirname(os.path.dirname(os.path.abspath(__file__)))
rows = []
for d in sorted(glob.glob(os.path.join(V, 'seeded', '*', 'meta.json'))):
    m = json.load(open(d))
    sid = os.path.basename(os.path.dirname(d))
    conf = m.get('confirmed', {})
    ok = all(conf.get(k) for k in ('patch_applies', 'suite_passes_with_patch', 'demo_fails_with_patch', 'demo_passes_without_patch')) if conf else None
    det = m.get('checks_run', {})
    caught = [c for c, r in sorted(det.items()) if r['rc'] == 1]
    missed = [c for c, r in sorted(det.items()) if r['rc'] != 1]
    rows.append((sid, m.get('property', ''), (m.get('summary', '') or '')[:150].replace('|', '/'), (m.get('needs_to_manifest', '') or '')[:170].replace('|', '/'),
                 'yes' if ok else ('n/a' if ok is None else 'NO'), ' '.join(caught) or '-', ' '.join(missed) or '-', m.get('origin', 'sub-agent')))
with open(os.path.join(V, 'seeded', 'RESULTS.md'), 'w') as f:
    f.write('# Seeded changes and what the quick checks report on them\n\n')
    f.write('Every change compiles and passes the 66 repository tests unless the "confirmed" column says otherwise; "caught by" lists the quick checks that\n'
            'exit 1 with a VIOLATION line when the patch is applied to /repo, "ran, silent" the checks that were run and did not report it\n'
            '(a silent check of ANOTHER property is expected when the change does not break that property).\n\n')
    f.write('| id | breaks | change | needs to manifest | confirmed | caught by | ran, silent | origin |\n|---|---|---|---|---|---|---|---|\n')
    for r in rows:
        f.write('| ' + ' | '.join(r) + ' |\n')
print(len(rows), 'seeded changes')
