#!/usr/bin/env python3
"""Writes /verif/MANIFEST.json from the table below (kept in one place so that it always validates)."""
import json
import os

V = os.path.dirname(os.path.dirname(os.path.abspath(__file__)))
TRUST = ('Trusted: CPython integer arithmetic; the reference model vlib/rm.py (self-tested at the start of every run against the three published '
         'vectors in the repository and internal identities); the executor (one sm9_core call per program line, values printed through the '
         'crate\'s own to_slice). Not trusted: any arithmetic of the crate incl. ==, to_affine, normalize. Held = on the executions observed.')
P = {
    'C01': ('reference-model monitor over pairing event logs', '5 C01',
            'Runtime monitoring: the three pairing entry points are executed on generated operands (boundary/random scalars, every Jacobian '
            'representation, every identity form) and each returned 384-byte value is judged by an independent flat-Fq12 model: power law, '
            'additivity in both arguments, identity cases, non-degeneracy, order r. Exploration level: sampled, class-directed inputs.'),
    'C02': ('differential monitor against a textbook R-ate pairing model', '5 C02',
            'Every pairing value observed is compared byte for byte with an independent textbook implementation (affine Miller loop on E(Fq12), '
            'generic final power) that itself reproduces the published vectors. Exploration over scalar classes x representations.'),
    'C03': ('event-log monitor (entry-point agreement, call histories, shared-reference threads) + TSan/Miri stages', '5 C03, 6',
            'All entry points x representation pairs must give the byte-identical, model-predicted value; uniquely numbered call histories on '
            'prepared values (clone, fresh copy, interleaving) and multi-threaded sharing are checked against the model; thorough adds a '
            'ThreadSanitizer executor and Miri.'),
    'C04': ('reference-model monitor over group-operation event logs', '5 C04',
            'Every Jacobian triple returned by + - neg over the full representation x relation grid is mapped to its affine point by the model '
            'and compared with chord-and-tangent arithmetic, incl. curve points outside the subgroup. Exploration with a required class grid.'),
    'C05': ('reference-model monitor (scalar multiplication)', '5 C05',
            'P*k and k*P judged against plain affine double-and-add for scalar classes x representations x identity forms; module laws evaluated '
            'by the library and judged side by side; generator order.'),
    'C06': ('reference-model monitor with limb-pattern directed operands', '5 C06',
            'Every operator form of Fq/Fr plus inverse, pow, is_zero, is_even compared with Python integers mod p on operands aimed at the '
            'canonical and the Montgomery limb patterns and related pairs.'),
    'C07': ('invariant-at-a-hook + history monitor', '5 C07',
            'Blindly generated histories over every public producer of Fr/Fq/Fq2 values are replayed in the model; after each producing call the '
            'monitor asserts canonicity (bytes < p, raw Montgomery limbs via the cfg hook = value*R mod p), is_zero, == as value equality and '
            'round-trip equality; non-returning calls are caught by the watchdog + solo re-run.'),
    'C08': ('decoder oracle monitor run in two build profiles + ASan/Miri stages', '5 C08, 6',
            'Byte strings of every length 0..140, bit flips, prefixes, out-of-range coordinates, non-subgroup points are fed to the six decoders '
            'and Fq2::from_slice in release and dev executors; acceptance must equal the model predicate, accepted inputs must re-encode to '
            'themselves, no panic, identical answers across profiles; thorough adds AddressSanitizer and Miri executions of the corpus.'),
    'C09': ('reference-model monitor with model-built non-subgroup points', '5 C09',
            'Points of order 13, 1621, 13*1621, the large cofactor, r*h, subgroup+small-order and near misses are constructed by the model with '
            'arbitrary-size scalars and presented to the validated constructors and G2 decoders; acceptance must equal on-curve and [r]P = O.'),
    'C10': ('format monitor (model-constructed expected bytes)', '5 C10',
            'Expected encodings are built by the model from affine coordinates, so a change made consistently to encoder and decoder is caught; '
            'all representations, both parities, decode-back checked with the model\'s affine map.'),
    'C11': ('reference-model monitor over Gt operation logs', '5 C11',
            'Products, inverses and powers of pairing values (and of derived values) compared with flat-Fq12 model arithmetic; == against byte '
            'equality; limbs < q.'),
    'C12': ('reference-model monitor incl. hook-driven sum-of-products', '5 C12',
            'Fq2 operator forms, accessors, ring axioms, the internal squaring (hook and via G2 doubling/mixed addition on arbitrary coordinates) '
            'and the interleaved multiplier itself (hook) judged against pairs of integers; carry-count classes computed and reported.'),
    'C13': ('reference-model monitor over conversion calls', '5 C13',
            'from_slice/TryFrom for every length 0..70, interpret, from_str, from_hash, to_slice, to_big_endian for every buffer length, set_bit '
            'for bit 0..300 compared with int.from_bytes / int(str) / bit operations mod p.'),
    'C14': ('soundness/completeness monitor', '5 C14',
            'Returned roots are squared in the model; Some/None compared with Euler / norm criterion; class-directed inputs (real elements in '
            'the four QR x half classes, purely imaginary, fixed values) and compressed decoding of x-coordinates that carry points.'),
    'C15': ('reference-model monitor (equality, normalize, affine views)', '5 C15',
            '== in both directions, reflexivity, transitivity on representation triples, != , is_zero, normalize, affine conversion and back '
            'judged against equality of model points over the representation grid incl. lambda = -1 and arbitrary (x, y, 0).'),
    'C16': ('history monitor tracking only discrete logarithms; bounded-exhaustive + random programs', '5 C16',
            'Exhaustive enumeration of all programs up to depth 2 (quick) / 3 (thorough) over a 38-instruction set and the scalar alphabet '
            '{0,1,2,r-1} in both groups, plus random long programs; observations (denoted point, == fresh, is_zero, encodings, pairings) must be '
            'those predicted from the dlog alone. Exhaustive only for that bounded program space.'),
    'C17': ('hook-driven reference-model monitor of the internal tower', '5 C17, 3',
            'Through the cfg-guarded re-exports every Fq4/Fq12 operation, Frobenius map, sparse multiplication, u128 powering, both final '
            'exponentiations (on arbitrary non-zero elements) and both Miller loops are compared with flat Fq[w]/(w^12+2) model arithmetic.'),
    'C18': ('differential execution across build profiles (+ Miri as third configuration)', '5 C18, 6',
            'The workloads of C01-C17 are executed by a release and a dev (debug-assertions, overflow-checks, opt-level 0) executor built from '
            'the same tree; answer logs must be identical and free of overflow/assertion panics.'),
}
checks = []
for pid in sorted(P):
    tech, ref, text = P[pid]
    checks.append({
        'property_id': pid,
        'quick_cmd': './check %s --tier quick' % pid,
        'thorough_cmd': './check %s --tier thorough' % pid,
        'evidence_file': '/verif/evidence/%s.json' % pid,
        'replay_cmd_template': './check %s --replay {path}' % pid,
        'engine': 'sm9exec+monitors',
        'level_claimed': {'category': 'exploration', 'text': text, 'design_ref': 'DESIGN.md section ' + ref},
        'level_note': TRUST,
        'technique': 'runtime monitoring: ' + tech,
    })
m = {
    'version': 1,
    'setup_cmd': './setup.sh',
    'hooks': {
        'guard': 'john_yu_sm9_core_verif',
        'enable': 'executor/.cargo/config.toml sets rustflags = ["--cfg", "john_yu_sm9_core_verif", "--cfg", "john_yu_sm9_core_verif_lines"] (the second guard is optional). If that build fails because a private item the hooks name was refactored, vlib/runner.py probes which hook groups still compile and adds --cfg john_yu_sm9_core_verif_skip_<group> (raw, sop, pow, fexp, prep, consts in /repo; f4x, f12x, powfr, fexpm, ml, fqx in the executor) for those that do not, down to a build without any hook (--cfg sm9exec_nohooks); sanitizer and Miri builds pass the same --cfg flags through RUSTFLAGS',
        'baseline_off_cmd': 'cd /repo && cargo test --workspace --no-fail-fast --offline',
        'source_commits': ['55aa66b', '6be3d24', '88b3421', 'fcde2ce'],
        'add_only': True,
    },
    'engines': [{
        'name': 'sm9exec+monitors', 'path': 'executor/ (Rust line-protocol interpreter over sm9_core) + vlib/ (Python reference model, generators, monitors) + check',
        'serves_properties': sorted(P), 'kind_free_text': 'runtime monitoring: event log of real library calls judged by an independent reference model; sanitizer stages in the thorough tier',
    }],
    'checks': checks,
    'not_applicable': [],
    'notes': 'Every check also runs two generic perturbation passes on a sample of its own cases (every call made twice in a row; every program on 8 threads at once) and records them in coverage.perturbation_passes. Calibration: 108 seeded changes written by sub-agents (seeded/RESULTS.md), 15 hand-made ones (mutants/), 20 behaviour-preserving changes on which all checks stay silent (benign/). exit codes: 0 held on everything explored; 1 violation (VIOLATION line + replay file); 2 inconclusive (INCONCLUSIVE line; build failure, harness error or a required input class was not observed). Six genuine defects of the pinned commit were repaired by fix: commits in /repo (see KNOWN_FINDINGS.txt, DESIGN.md section 8).',
}
json.dump(m, open(os.path.join(V, 'MANIFEST.json'), 'w'), indent=1)
print('wrote MANIFEST.json with', len(checks), 'checks')
