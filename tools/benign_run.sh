#!/bin/bash
# usage: tools/benign_run.sh <benign id>... — applies each behaviour-preserving patch to /repo, runs ALL quick checks, restores /repo.
# Every check must stay silent (exit 0). Output: one line per (patch, check).
cd /verif
restore() { git -C /repo checkout -- . ; }
trap restore EXIT
for b in "$@"; do
  if ! git -C /repo diff --quiet; then echo "/repo dirty"; exit 3; fi
  git -C /repo apply /verif/benign/$b/patch.diff || { echo "$b APPLYFAIL"; continue; }
  for id in C01 C02 C03 C04 C05 C06 C07 C08 C09 C10 C11 C12 C13 C14 C15 C16 C17 C18; do
    out=$(./check $id --tier quick 2>&1); rc=$?
    echo "$b $id rc=$rc $(echo "$out" | grep -m1 -E 'violation:|INCONCLUSIVE' | cut -c1-300)"
  done
  restore
done
