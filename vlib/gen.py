"""Workload generators: limb-pattern directed field operands, scalar classes, point representations."""
from . import rm
from .rm import q, r, R, F1, F2

M64 = (1 << 64) - 1
LIMB_SPECIALS = [0, 1, 2, (1 << 32) - 1, 1 << 32, (1 << 32) + 1, (1 << 63) - 1, 1 << 63, (1 << 63) + 1, M64, M64 - 1]


def limbs_of(x):
    return [(x >> (64 * i)) & M64 for i in range(4)]


def limb_value(rng, p):
    """a 256-bit integer whose four limbs are drawn from boundary patterns (may be >= p)"""
    pl = limbs_of(p)
    hl = limbs_of(p >> 1)
    v = 0
    for i in range(4):
        k = rng.randrange(19)
        if k < len(LIMB_SPECIALS):
            c = LIMB_SPECIALS[k]
        elif k == 11:
            c = pl[i]
        elif k == 12:
            c = (pl[i] + 1) & M64
        elif k == 13:
            c = (pl[i] - 1) & M64
        elif k == 14:
            # complements of the modulus limbs and of the limbs of (p-1)/2: adding the modulus (or half of it, as modular
            # halving does) to such a limb gives exactly 2^64-1 or 2^64
            c = rng.choice([pl[i] ^ M64, (-pl[i]) & M64, hl[i] ^ M64, (-hl[i]) & M64, hl[i], (hl[i] + 1) & M64])
        elif k == 15:
            c = rng.choice([2 * (hl[i] ^ M64) + 1, 2 * (hl[i] ^ M64), 2 * ((-hl[i]) & M64) + 1, 2 * (pl[i] ^ M64) + 1]) & M64
        else:
            c = rng.getrandbits(64)
        v |= c << (64 * i)
    return v


def small_multiple_boundaries(p):
    """values v for which a small multiple k*v (k = 2, 3, 4, 8: modular doubling, tripling, the 8*y^4 of point doubling) lands exactly on /
    next to a multiple of p or of 2^256: floor(j*p/k) and floor(j*2^256/k) with neighbours"""
    out = []
    for k in (2, 3, 4, 8):
        for j in range(1, k):
            for base in (j * p // k, j * R // k):
                out += [base - 1, base, base + 1]
    return [v % p for v in out]


def core_fixed_values(p):
    return [0, 1, 2, 3, p - 1, p - 2, (p - 1) // 2, (p + 1) // 2, 1 << 255, (1 << 255) - 1, R % p, (R - 1) % p, (-R) % p,
            (R * R) % p, pow(R, -1, p), (1 << 64) - 1, 1 << 64, (1 << 128) - 1, 1 << 192, R - p, (R - p) - 1, (R - p) + 1]


def fixed_values(p):
    return core_fixed_values(p) + small_multiple_boundaries(p)


def pick_fixed(rng, p):
    """half of the draws from the short core list (0, 1, 2, p-1, R mod p ...), half from the extended list, so that extending the
    list does not dilute the most important values"""
    fv = core_fixed_values(p) if rng.random() < 0.5 else fixed_values(p)
    return fv[rng.randrange(len(fv))] % p


def field_value(rng, p):
    """(value, class) with value in [0, p): canonical limb patterns, Montgomery-targeted limb patterns,
    fixed boundary values, near-modulus values and uniform ones"""
    k = rng.randrange(10)
    if k == 0:
        return pick_fixed(rng, p), 'fixed'
    if k == 1:
        return rm.unmont(pick_fixed(rng, p), p), 'fixed-mont'
    if k in (2, 3):
        return limb_value(rng, p) % p, 'limbs'
    if k in (4, 5):
        m = limb_value(rng, p)
        if m >= p:
            m = p - 1 - (m % 1000)
        return rm.unmont(m, p), 'limbs-mont'
    if k == 6:
        return p - 1 - rng.randrange(1000), 'near-p'
    if k == 7:
        return rm.unmont(p - 1 - rng.randrange(1000), p), 'near-p-mont'
    return rng.randrange(p), 'uniform'


def field_pair(rng, p):
    """(a, b, pairclass): related operand pairs"""
    a, ca = field_value(rng, p)
    k = rng.randrange(14)
    if k == 13:
        got = mid_reduction_pair(rng, p, rng.choice(['second-overflow', 'k0-pending-max']))
        if got:
            return (got[0], got[1], 'mid-reduction') if rng.random() < 0.5 else (got[1], got[0], 'mid-reduction')
        k = rng.randrange(9)
    if k == 9:
        x, y = mont_digit_pair(rng, p)
        return x, y, 'mont-digits'
    if k == 10:
        got = unreduced_pair(rng, p)
        if got:
            return got[0], got[1], 'unreduced-target'
    if k == 11 and rng.random() < 0.5:
        # the sum of the stored representatives just below / above p or 2^256 (same top limb as the modulus but smaller overall, ...)
        S = rng.choice([p, R]) + rng.choice([-1, 1]) * rng.getrandbits(rng.choice([1, 8, 64, 128, 190, 192, 200]))
        A = rm.mont(a, p)
        B = S - A
        if 0 <= B < p:
            return a, rm.unmont(B, p), 'sum-target'
    if k == 11:
        # product equal to a boundary value: (a, c/a)
        c = fixed_values(p)[rng.randrange(len(fixed_values(p)))] % p
        if a:
            return a, c * pow(a, -1, p) % p, 'inverse-pair'
    if k == 12:
        k = rng.randrange(9)
    if k == 0:
        return a, a, 'same'
    if k == 1:
        return a, (-a) % p, 'negation'          # a + b = p
    if k == 2:
        return a, (a + 1) % p, 'succ'
    if k == 3:
        return a, (a - 1) % p, 'pred'
    if k == 4:
        return a, (R - a) % p, 'sum-2^256'      # a + b = 2^256 (mod p)
    if k == 5:
        # Montgomery representatives summing to p or 2^256 exactly
        ma = rm.mont(a, p)
        mb = (p - ma) % p if rng.random() < 0.5 else (R - ma) % p
        return a, rm.unmont(mb % p, p), 'mont-sum'
    b, cb = field_value(rng, p)
    return a, b, 'indep'



# --------------------------------------------------------------------------- Montgomery quotient-digit directed operands
def _digit_pattern(rng):
    """a 256-bit K whose 64-bit digits are drawn from {0, 1, 2^64-1, 2^63, random}: K is the sequence of Montgomery
    quotient digits k_0..k_3 the reduction will compute"""
    K = 0
    for i in range(4):
        c = rng.randrange(6)
        d = 0 if c in (0, 1) else M64 if c == 2 else 1 if c == 3 else (1 << 63) if c == 4 else rng.getrandbits(64)
        K |= d << (64 * i)
    return K


def sqrt_mod_2_256(T):
    """some a with a*a = T mod 2^256 for T = 1 mod 8 (Hensel lifting), else None"""
    if T % 8 != 1:
        return None
    a = 1
    for k in range(3, 257):
        # invariant: a*a = T mod 2^k ; lift to 2^(k+1)
        if (a * a - T) % (1 << (k + 1)) != 0:
            a += 1 << (k - 1)
    a %= 1 << 256
    return a if (a * a - T) % (1 << 256) == 0 else None


def mont_digit_pair(rng, p):
    """(a, b): field values whose stored Montgomery representatives A, B satisfy A*B = -K*p mod 2^256 for a digit pattern K,
    i.e. Montgomery reduction of A*B computes exactly the quotient digits of K (zero digits, all-ones digits ...)"""
    pinv = pow(p, -1, R)
    for _ in range(200):
        K = _digit_pattern(rng)
        T = (-K * p) % R
        A = rng.getrandbits(256) | 1
        if A >= p:
            A >>= 1
            A |= 1
        B = T * pow(A, -1, R) % R
        if B < p:
            return rm.unmont(A, p), rm.unmont(B, p)
    return rng.randrange(p), rng.randrange(p)


def mont_digit_square(rng, p):
    """a field value whose Montgomery representative A satisfies A*A = -K*p mod 2^256 for a digit pattern K"""
    for _ in range(400):
        K = _digit_pattern(rng)
        # make T = -K*p = 1 mod 8 by adjusting the low three bits of K
        for low in range(8):
            K2 = (K & ~7) | low
            T = (-K2 * p) % R
            if T % 8 == 1:
                break
        else:
            continue
        A = sqrt_mod_2_256(T)
        if A is None:
            continue
        for cand in (A, R - A, (A + (1 << 255)) % R, (R - A + (1 << 255)) % R):
            if cand < p and (cand * cand - T) % R == 0:
                return rm.unmont(cand, p)
    return rng.randrange(p)


# --------------------------------------------------------------------------- operands aimed at the UNREDUCED Montgomery result
def sqrt_mod(a, p):
    """Tonelli-Shanks modulo an odd prime p; None for a non-residue"""
    a %= p
    if a == 0:
        return 0
    if pow(a, (p - 1) // 2, p) != 1:
        return None
    s, m = 0, p - 1
    while m % 2 == 0:
        s += 1
        m //= 2
    z = 2
    while pow(z, (p - 1) // 2, p) != p - 1:
        z += 1
    c = pow(z, m, p)
    t = pow(a, m, p)
    x = pow(a, (m + 1) // 2, p)
    while t != 1:
        i, t2 = 0, t
        while t2 != 1:
            t2 = t2 * t2 % p
            i += 1
        b = pow(c, 1 << (s - i - 1), p)
        s, c, t, x = i, b * b % p, t * b * b % p, x * b % p
    return x


def unreduced_target(rng, p):
    """a value u in [0, 2p) for the accumulator (A*B + K*p)/2^256 BEFORE the final conditional subtraction: the boundaries of that
    subtraction (p, 2^256) and their neighbours, 2^256 + small, values with zero / all-ones limbs"""
    k = rng.randrange(10)
    if k == 0:
        return rng.choice([p - 1, p, p + 1, R - 1, R, R + 1, 2 * p - 1, 2 * p - 2, 0, 1])
    if k in (1, 2, 3):
        return R + rng.getrandbits(rng.choice([1, 8, 60, 64, 65, 120, 128, 190, 192, 200, 250]))      # carry out, high limbs zero
    if k == 4:
        return p + rng.getrandbits(rng.choice([1, 8, 64, 128, 192]))
    if k == 5:
        return R - 1 - rng.getrandbits(rng.choice([1, 8, 64, 128, 192]))
    if k in (6, 7):
        v = limb_value(rng, p)
        return v if v < 2 * p else v >> 1
    return rng.randrange(2 * p)


def unreduced_pair(rng, p):
    """(a, b, u): field values whose Montgomery product has the unreduced accumulator (A*B + K*p)/2^256 equal to u exactly (or None)"""
    for _ in range(40):
        u = unreduced_target(rng, p)
        A = rng.randrange(p // 2, p) | 1
        if A >= p:
            continue
        # need A*B = u*R - K*p with 0 <= K < R and 0 <= B < p:  K = u*R/p mod A, then the K in that residue class that puts B in range
        K0 = (u * R * pow(p, -1, A)) % A
        # B < p  <=>  K > (u*R - p*A)/p ; smallest admissible K congruent to K0
        lo = (u * R - p * A) // p + 1
        if lo < 0:
            lo = 0
        K = lo + ((K0 - lo) % A)
        num = u * R - K * p
        if K >= R or num < 0 or num % A:
            continue
        B = num // A
        if 0 <= B < p and (A * B + K * p) == u * R:
            return rm.unmont(A, p), rm.unmont(B, p), u
    return None


def unreduced_square(rng, p):
    """(a, u): a field value whose Montgomery SQUARE has the unreduced accumulator equal to u exactly (or None)"""
    for _ in range(60):
        u = unreduced_target(rng, p)
        A = sqrt_mod(u * R % p, p)
        if A is None:
            continue
        for cand in (A, p - A):
            if 0 < cand < p:
                num = u * R - cand * cand
                if num >= 0 and num % p == 0 and num // p < R:
                    return rm.unmont(cand, p), u
    return None


def sop2_boundary(rng):
    """(a0, a1, b0, b1, u): Fq values such that the interleaved accumulator of a0*b0 + a1*b1 equals u exactly, u chosen at the
    boundaries of the carry folding: 2^256 + q (two subtractions needed, result exactly 0/1), 2^256, 2q, ... (or None)"""
    p = q
    for _ in range(60):
        k = rng.randrange(8)
        if k < 3:
            u = R + p + rng.choice([-2, -1, 0, 0, 1, 2, rng.getrandbits(64), rng.getrandbits(200)])
        elif k == 3:
            u = R + rng.choice([-1, 0, 1, rng.getrandbits(128)])
        elif k == 4:
            u = 2 * p + rng.choice([-1, 0, 1])
        elif k == 5:
            u = p + rng.choice([-1, 0, 1])
        else:
            u = R + rng.randrange(int(p * 1.42))      # anywhere above 2^256
        if u < 0:
            continue
        smax = 2 * (p - 1) * (p - 1)
        klo = max(0, -((smax - u * R) // p))          # S = u*R - K*p <= smax
        khi = min(R - 1, (u * R) // p)
        if klo > khi:
            continue
        K = rng.randrange(klo, khi + 1)
        S = u * R - K * p
        for _try in range(120):
            A0 = rng.randrange(p - (p >> rng.choice([1, 4, 7, 20])), p)
            A1 = rng.randrange(p - (p >> rng.choice([1, 4, 7, 20])), p)
            try:
                B0 = (S * pow(A0, -1, A1)) % A1       # A0*B0 = S mod A1
            except ValueError:
                continue
            rest = S - A0 * B0
            if rest < 0 or rest % A1:
                continue
            B1 = rest // A1
            if 0 <= B1 < p and B0 < p:
                assert A0 * B0 + A1 * B1 == S
                return rm.unmont(A0, p), rm.unmont(A1, p), rm.unmont(B0, p), rm.unmont(B1, p), u
    return None


# --------------------------------------------------------------------------- scalars that make an intermediate ladder value special
LAMBDA_R = next(l for l in (pow(g, (r - 1) // 3, r) for g in range(2, 60)) if l != 1)
assert pow(LAMBDA_R, 3, r) == 1
PATTERN_BYTES = [0xAA, 0x55, 0x33, 0xCC, 0x0F, 0xF0, 0x66, 0x99, 0x77, 0xEE, 0x11, 0x88, 0xDB, 0x6D, 0xB6, 0x24, 0x92, 0x49]


def ladder_scalar(rng):
    """a scalar k < r whose binary expansion has a prefix t with [t]P in {+-P, +-phi(P), +-phi^2(P)} (phi = the cube-root-of-unity
    endomorphism) immediately before an addition step: the left-to-right ladder then adds P to -P, to P, or to a point sharing x or y"""
    l = LAMBDA_R
    targets = [c % r for c in (1, -1, l, -l, l * l, -l * l)]
    for _ in range(50):
        t = rng.choice(targets) + rng.choice([0, r])          # 2*prefix = t (mod r) as integers
        if t % 2:
            continue
        j = rng.randrange(0, 40)
        k = ((t + 1) << j) | rng.getrandbits(j) if j else t + 1
        if 0 < k < r:
            return k
    return rng.randrange(r)


def fq2_value(rng):
    k = rng.randrange(8)
    a, _ = field_value(rng, q)
    b, _ = field_value(rng, q)
    if k == 0:
        return (a, 0), 'real'
    if k == 1:
        return (0, b), 'imag'
    if k == 2:
        d = rng.randrange(4)
        return (q - 1 - d, q - 1 - rng.randrange(4)), 'max'
    if k == 3:
        d = rng.randrange(4)
        return (rm.unmont(q - 1 - d, q), rm.unmont(q - 1 - rng.randrange(4), q)), 'max-mont'
    return (a, b), 'general'


def scalar(rng):
    """(k, class) with k in [0, r)"""
    c = rng.randrange(15)
    if c == 0:
        l = LAMBDA_R      # eigenvalues of the cube-root-of-unity endomorphism: [l]P = (beta*x, y) shares y with P
        fx = [0, 1, 2, 3, r - 1, r - 2, (r - 1) // 2, (r + 1) // 2, 4, 7, 8, 255, 256, l, l * l % r, r - l, r - l * l % r, (l + 1) % r, (l - 1) % r]
        return fx[rng.randrange(len(fx))], 'fixed'
    if c == 1:
        return 1 << rng.randrange(256), 'pow2'       # may exceed r for bit 255
    if c == 2:
        return (1 << rng.randrange(1, 256)) - 1, 'ones'
    if c == 3:
        # long runs of zeros / ones
        v = 0
        pos = 0
        bit = rng.randrange(2)
        while pos < 256:
            run = rng.randrange(1, 80)
            if bit:
                v |= ((1 << run) - 1) << pos
            pos += run
            bit ^= 1
        return v & ((1 << 256) - 1), 'runs'
    if c == 4:
        v = 0
        for _ in range(rng.randrange(1, 5)):
            v |= 1 << rng.randrange(256)
        return v, 'sparse'
    if c == 5:
        return limb_value(rng, r), 'limbs'
    if c == 6:
        return rng.randrange(1 << rng.randrange(1, 64)), 'small'
    if c == 7:
        # Montgomery-targeted: the stored representative (not the value) has boundary limbs, e.g. representative 1, 2^64, r-1
        if rng.random() < 0.5:
            return rm.unmont(pick_fixed(rng, r), r), 'mont'
        return field_value(rng, r)[0], 'mont'
    if c == 8:
        # repeating bit patterns (maximal signed-digit weight, alternating runs) and their neighbours
        b = PATTERN_BYTES[rng.randrange(len(PATTERN_BYTES))]
        n = rng.choice([32, 32, 32, 31, 16, 8, rng.randrange(1, 33)])
        v = int.from_bytes(bytes([b]) * n, 'big')
        if rng.random() < 0.3:
            v = (v >> rng.randrange(8)) | (rng.getrandbits(4) << 252)
        v += rng.choice([0, 0, 1, -1, 2])
        while v >= r:
            v >>= 1
        return max(v, 0), 'pattern'
    if c == 9:
        return ladder_scalar(rng), 'ladder'
    if c == 10:
        # maximal signed-digit (NAF) weight: a non-zero digit +-1 at every second position up to the top
        for _ in range(40):
            top = rng.choice([256, 256, 255, 254, rng.randrange(8, 257)])
            v = 1 << top
            for i in range(top - 2, -1, -2):
                v += (1 << i) if rng.random() < 0.5 else -(1 << i)
            if 0 < v < r:
                return v, 'naf-dense'
    return rng.randrange(r), 'uniform'


def scalar_r(rng):
    k, c = scalar(rng)
    return k % r, c


# --------------------------------------------------------------------------- point representations
# rescaling factors: -1, small, large, and values whose stored Montgomery representative is 1, 2, 2^255, q-1 (R^-1 mod q etc.)
LAMBDAS1 = [q - 1, 2, 1 << 255, (q - 1) // 2, 3, rm.unmont(1, q), rm.unmont(2, q), R % q, rm.unmont(q - 1, q), rm.unmont(1 << 255, q)]
LAMBDAS2 = [(q - 1, 0), (0, 1), (2, 0), (0, q - 1), (1, 1), (1 << 255, 0), (1, 5), (1, q - 1), (0, 1234567890123456789), (rm.unmont(1, q), 0),
            (0, rm.unmont(1, q)), (rm.unmont(1, q), rm.unmont(1, q)), (1, rm.unmont(1, q))]


def lam_for(rng, which):
    if rng.random() < 0.06:
        z = SIXTH_ROOTS[rng.randrange(len(SIXTH_ROOTS))]
        return z if which == 1 else (z, 0)
    if which == 1:
        if rng.random() < 0.5:
            return LAMBDAS1[rng.randrange(len(LAMBDAS1))]
        return rng.randrange(2, q)
    if rng.random() < 0.5:
        return LAMBDAS2[rng.randrange(len(LAMBDAS2))]
    if rng.random() < 0.15:
        # norm one (conj(y)/y): the Fq inversion inside Fq2::inverse then sees exactly 1
        y = (rng.randrange(1, q), rng.randrange(1, q))
        return rm.f2mul((y[0], (-y[1]) % q), rm.f2inv(y))
    return (rng.randrange(q), rng.randrange(1, q))


BETA_Q = next(b for b in (pow(g, (q - 1) // 3, q) for g in range(2, 50)) if b != 1)
# sixth roots of unity of Fq (also of Fq2, as (z, 0)): the curves have a = 0, so (x, y, zeta) is a representative of the curve point
# (x / zeta^2, y / zeta^3) - a DIFFERENT point whose raw X and Y are those of (x, y)
SIXTH_ROOTS = [q - 1, BETA_Q, BETA_Q * BETA_Q % q, (q - BETA_Q) % q, (q - BETA_Q * BETA_Q) % q]
SPECIAL_DLOGS = [1, r - 1, LAMBDA_R, LAMBDA_R * LAMBDA_R % r, r - LAMBDA_R, r - LAMBDA_R * LAMBDA_R % r]


def dlog(rng):
    """discrete logarithm of a base point: mostly uniform, sometimes a WELL-KNOWN point - the generator, its negative and their images
    under the cube-root-of-unity endomorphism (what a generator cache or fixed-base table would be keyed on), 2G, G/2"""
    if rng.random() < 0.12:
        return rng.choice(SPECIAL_DLOGS + [1, 1, r - 1, 2, (r + 1) // 2])
    return rng.randrange(1, r)


def alias_scale(which, P):
    """a sixth root of unity zeta such that the representative (zeta^2 x, zeta^3 y, zeta) of P has the RAW X and Y of the generator
    (exists iff P is one of +-G, +-phi(G), +-phi^2(G) and P != G); None otherwise"""
    F = F1 if which == 1 else F2
    G = rm.gmul(which, 1)
    for z in SIXTH_ROOTS:
        lam = z if which == 1 else (z, 0)
        l2 = F.mul(lam, lam)
        if F.mul(P[0], l2) == G[0] and F.mul(P[1], F.mul(l2, lam)) == G[1]:
            return lam
    return None


class Prog:
    """Builds a program (list of lines) and hands out register names."""

    def __init__(self):
        self.lines = []
        self.n = 0

    def reg(self, prefix='r'):
        self.n += 1
        return '%s%d' % (prefix, self.n)

    def emit(self, dst, op, *args):
        """append a line, return its index"""
        self.lines.append(' '.join([dst, op] + [str(a) for a in args]))
        return len(self.lines) - 1

    def let(self, op, *args, prefix='r'):
        """emit into a fresh register; returns ('$reg', line index)"""
        d = self.reg(prefix)
        i = self.emit(d, op, *args)
        return '$' + d, i


REPS = ['aff', 'jac', 'scaled']
ID_REPS = ['zero', 'sub', 'new0']


def point(prog, rng, which, k, rep):
    """Emit lines that leave the group element [k]G (k mod r != 0) of G1/G2 in a register in the wanted
    representation. Returns '$reg'. rep: aff (z=1, from RM coordinates), jac (library arithmetic, never
    normalised), scaled (lambda-rescaled RM coordinates)."""
    F = F1 if which == 1 else F2
    g = 'g%d' % which
    P = rm.gmul(which, k)
    assert P is not None
    if rep == 'aff':
        return prog.let(g + '.lit', rm.jac_lit(F, P))[0]
    if rep == 'scaled':
        lam = lam_for(rng, which)
        if k % r in SPECIAL_DLOGS and rng.random() < 0.6:
            # the representative whose raw X and Y are exactly the generator's although it denotes another point (z a sixth root of unity)
            l2 = alias_scale(which, P)
            if l2 is not None:
                return prog.let(g + '.lit', rm.jac_lit(F, P, l2))[0]
        if rng.random() < 0.3:
            # a scale for which the point becomes affine (z = 1) exactly after k doublings inside a ladder / Miller loop
            l2 = znorm_lambda(which, P, rng.choice([1, 2, 3, 3, 4]))
            if l2 is not None:
                lam = l2
        return prog.let(g + '.lit', rm.jac_lit(F, P, lam))[0]
    if rep == 'setters':
        # start from the generator and overwrite every coordinate through the public setters
        lam = lam_for(rng, which)
        l2 = F.mul(lam, lam)
        reg = prog.let(g + '.one')[0]
        reg = prog.let(g + '.set_z', reg, F.enc(lam))[0]
        reg = prog.let(g + '.set_y', reg, F.enc(F.mul(P[1], F.mul(l2, lam))))[0]
        return prog.let(g + '.set_x', reg, F.enc(F.mul(P[0], l2)))[0]
    if rep == 'jac':
        # [k]G = [k1]G + [k2]G computed by the library, result left in whatever Jacobian form the adder produced
        k1 = rng.randrange(1, r)
        k2 = (k - k1) % r
        if k2 == 0 or k1 == k2:
            k1 = (k1 + 1) % r or 1
            k2 = (k - k1) % r
        a = prog.let(g + '.lit', rm.jac_lit(F, rm.gmul(which, k1)))[0]
        if k2 == 0:
            return a
        b = prog.let(g + '.lit', rm.jac_lit(F, rm.gmul(which, k2), lam_for(rng, which) if rng.random() < 0.5 else None))[0]
        return prog.let(g + '.add', a, b)[0]
    raise ValueError(rep)


def identity(prog, rng, which, rep):
    """The identity in one of its representations: zero() = (0,1,0); the (rho^2, rho^3, 0)-style value left by
    P + (-P) in each adder branch; an arbitrary (x, y, 0) through new()."""
    F = F1 if which == 1 else F2
    g = 'g%d' % which
    if rep == 'zero':
        return prog.let(g + '.zero')[0]
    if rep == 'new0':
        x = rng.randrange(q) if which == 1 else (rng.randrange(q), rng.randrange(q))
        y = rng.randrange(q) if which == 1 else (rng.randrange(q), rng.randrange(q))
        if rng.random() < 0.35:
            # degenerate junk: (0, 0, 0), (0, y, 0), (x, 0, 0), (1, 1, 0)
            x = rng.choice([F.zero, F.zero, F.one, x])
            y = rng.choice([F.zero, F.zero, F.one, y])
        return prog.let(g + '.lit', F.enc(x) + F.enc(y) + F.enc(F.zero))[0]
    if rep == 'sub':
        k = rng.randrange(1, r)
        P = rm.gmul(which, k)
        la = None if rng.random() < 0.5 else lam_for(rng, which)
        lb = None if rng.random() < 0.5 else lam_for(rng, which)
        a = prog.let(g + '.lit', rm.jac_lit(F, P, la))[0]
        b = prog.let(g + '.lit', rm.jac_lit(F, P, lb))[0]
        return prog.let(g + '.sub', a, b)[0]
    raise ValueError(rep)


# --------------------------------------------------------------------------- mid-reduction events by 2-D lattice reduction
def _gauss_reduce(u, v):
    """Lagrange-Gauss reduction of a 2-D integer lattice basis"""
    def n2(a):
        return a[0] * a[0] + a[1] * a[1]
    if n2(u) < n2(v):
        u, v = v, u
    while True:
        # u longer; reduce u by v
        d = n2(v)
        if d == 0:
            return v, u
        m = (2 * (u[0] * v[0] + u[1] * v[1]) + d) // (2 * d)
        u = (u[0] - m * v[0], u[1] - m * v[1])
        if n2(u) >= n2(v):
            return v, u
        u, v = v, u


def top_limb_solver(A, c, tau, tmax=1 << 64):
    """t in [0, tmax) such that ((c + A*t) mod 2^256) >> 192 == tau, or None. (closest-vector problem in the lattice
    {(t*2^128, A*t mod 2^256)}, solved by Gauss reduction + Babai rounding over the nine neighbours)"""
    S = 1 << 128
    T0 = ((tau << 192) - c) % R
    g1, g2 = _gauss_reduce((S, A % R), (0, R))
    tx, ty = (tmax // 2) * S, T0 + (1 << 191)
    det = g1[0] * g2[1] - g1[1] * g2[0]
    if det == 0:
        return None
    # (x, y) with x*g1 + y*g2 = target, rounded
    x = (tx * g2[1] - ty * g2[0])
    y = (g1[0] * ty - g1[1] * tx)
    x0, y0 = (2 * x + det) // (2 * det), (2 * y + det) // (2 * det)
    for dx in (0, -1, 1, -2, 2):
        for dy in (0, -1, 1, -2, 2):
            px = (x0 + dx) * g1[0] + (y0 + dy) * g2[0]
            if px % S:
                continue
            t = px // S
            if 0 <= t < tmax and ((c + A * t) % R) >> 192 == tau:
                return t
    return None


def mid_reduction_pair(rng, p, want):
    """(a, b) whose Montgomery product drives a chosen event in the MIDDLE of the reduction (row 1 or 2), verified with the
    white-box replica: want in {'second-overflow', 'k0-pending-max'}. Returns field values or None."""
    from . import paths
    inv = (-pow(p, -1, 1 << 64)) % (1 << 64)
    m = p
    for _ in range(60):
        row = rng.choice([1, 2])
        A = rng.randrange(p // 2, p) | 1
        nlow = row + 1                                  # limbs of B that determine k_0..k_row
        Blow = rng.getrandbits(64 * nlow) | 1
        if want == 'k0-pending-max':
            # choose the top low limb so that quotient digit `row` is zero: limb `row` of (A*Blow + sum k_j m 2^(64j)) == 0
            base = Blow & ((1 << (64 * row)) - 1)
            S0 = A * base
            acc = S0
            for j in range(row):
                k = ((acc >> (64 * j)) * inv) & M64
                acc += k * m << (64 * j)
            need = (-(acc >> (64 * row))) & M64          # A_0 * x = need (mod 2^64)
            x = need * pow(A & M64, -1, 1 << 64) & M64
            Blow = base | (x << (64 * row))
        # quotient digits k_0..k_row from the low limbs
        acc = A * Blow
        W = 0
        for j in range(row + 1):
            k = ((acc >> (64 * j)) * inv) & M64
            acc += k * m << (64 * j)
            W += k * m << (64 * j)
        # remaining limb t of B at position nlow: limb (4+row) of (A*B [+ W]) must be 0 (second overflow: exact wrap) or 2^64-1
        shift = 64 * nlow
        base_val = A * Blow + (W if want == 'second-overflow' else 0)
        tau = 0 if want == 'second-overflow' else M64
        # limb (4+row) of base_val + A*t*2^shift  ==  top limb of ((base_val >> (64*(row+1) + shift - 64*nlow ...)))
        # work modulo 2^(64*(5+row)) and look at its top limb: divide everything by 2^(64*(1+row))
        cut = 64 * (1 + row)
        c = (base_val >> cut) % R
        Ashift = (A << shift) >> cut if shift >= cut else None
        if Ashift is None:
            continue
        t = top_limb_solver(Ashift % R, c, tau)
        if t is None:
            continue
        B = Blow | (t << shift)
        if B >= p:
            continue
        ev = paths.mul_events(A, B, p)
        name = ('overflow-by-pending-carry-only@%d' % row) if want == 'second-overflow' else ('k=0&pending&high-limb=max@%d' % row)
        if name in ev:
            return rm.unmont(A, p), rm.unmont(B, p), name
    return None


def mid_reduction_square(rng, p):
    """a field value whose Montgomery SQUARE overflows the high limb in row 1 of the reduction by the pending carry alone
    (A = A_0 + A_1*2^64 + t*2^192 with t solved by the lattice solver; verified with the white-box replica), or None"""
    from . import paths
    inv = (-pow(p, -1, 1 << 64)) % (1 << 64)
    for _ in range(80):
        a = rng.getrandbits(128) | 1
        acc = a * a
        W = 0
        for j in range(2):
            k = ((acc >> (64 * j)) * inv) & M64
            acc += k * p << (64 * j)
            W += k * p << (64 * j)
        c = ((a * a + W) >> 128) % R
        t = top_limb_solver((2 * a << 64) % R, c, 0, tmax=(p >> 192))
        if t is None:
            continue
        A = a + (t << 192)
        if A >= p:
            continue
        ev = paths.mul_events(A, A, p)
        if 'overflow-by-pending-carry-only@1' in ev:
            return rm.unmont(A, p)
    return None


# --------------------------------------------------------------------------- representatives that become affine mid-ladder
def _jac_double(F, X, Y, Z):
    """replica of the crate's a = 0 doubling (dbl-2009-l), used only to AIM inputs"""
    A = F.mul(X, X)
    B = F.mul(Y, Y)
    C = F.mul(B, B)
    t = F.add(X, B)
    D = F.sub(F.sub(F.mul(t, t), A), C)
    D = F.add(D, D)
    E = F.add(A, F.add(A, A))
    Fv = F.mul(E, E)
    X3 = F.sub(Fv, F.add(D, D))
    C8 = F.add(C, C)
    C8 = F.add(C8, C8)
    C8 = F.add(C8, C8)
    Y3 = F.sub(F.mul(E, F.sub(D, X3)), C8)
    Z3 = F.mul(Y, Z)
    Z3 = F.add(Z3, Z3)
    return X3, Y3, Z3


def _root_pow2(which, c, times):
    """some x with x^(2^times) = c in Fq (which=1) or Fq2 (which=2), or None"""
    sq = rm.fq_sqrt if which == 1 else rm.f2sqrt
    issq = rm.fq_issq if which == 1 else rm.f2issq
    neg = (lambda v: (-v) % q) if which == 1 else rm.f2neg
    x = c
    for i in range(times):
        s = sq(x)
        if s is None:
            return None
        if i < times - 1 and not issq(s):
            s = neg(s)
            if not issq(s):
                return None
        x = s
    return x


def znorm_lambda(which, P, k):
    """a scale factor l such that the representative (l^2 x, l^3 y, l) of the affine point P has z = 1 exactly after k library
    doublings (z scales by l^(4^k)); None when the required 4^k-th root does not exist"""
    F = F1 if which == 1 else F2
    X, Y, Z = P[0], P[1], F.one
    for _ in range(k):
        X, Y, Z = _jac_double(F, X, Y, Z)
    if Z == F.zero:
        return None
    l = _root_pow2(which, F.inv(Z), 2 * k)
    if l is None:
        return None
    # check with the replica
    l2 = F.mul(l, l)
    X, Y, Z = F.mul(P[0], l2), F.mul(P[1], F.mul(l2, l)), l
    for _ in range(k):
        X, Y, Z = _jac_double(F, X, Y, Z)
    return l if Z == F.one else None
