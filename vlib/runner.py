"""Driver plumbing: building the executors from /repo's working tree, talking to them, sharding cases
over worker processes, three-valued verdicts, evidence, replays and the known-findings file."""
import array
import collections
import hashlib
import importlib
import json
import multiprocessing
import os
import random
import select
import shutil
import subprocess
import sys
import time
import traceback

VERIF = os.path.dirname(os.path.dirname(os.path.abspath(__file__)))
EXEC_DIR = os.path.join(VERIF, 'executor')
REPO = os.environ.get('SM9_REPO', '/repo')
GUARD = 'john_yu_sm9_core_verif'
NCPU = int(os.environ.get('VERIF_JOBS', '0')) or min(16, os.cpu_count() or 4)

PAR_REPS = 6               # a parallel block is executed this many times (race windows are short)
LINE_TIMEOUT_S = 40        # no new answer line for this long => suspected hang
SOLO_TIMEOUT_S = 90        # the open call re-run alone


class Inconclusive(Exception):
    pass


# --------------------------------------------------------------------------- builds
def _cargo_env(extra=None):
    env = dict(os.environ)
    env['CARGO_NET_OFFLINE'] = 'true'
    env.pop('RUSTFLAGS', None)
    if extra:
        env.update(extra)
    return env


HOOK_LEVEL = {}

_BUILD = {
    # name: (cargo argv tail, env, relative path of the binary)
    'release': (['build', '--release'], {}, 'target/release/sm9exec'),
    'dev': (['build'], {}, 'target/debug/sm9exec'),
    # coverage audit only (tools/coverage.sh): VERIF_RELEASE_FLAVOUR=cov makes every check use this binary as its release executor
    'cov': (['+nightly', 'build', '--release', '--target-dir', 'target-cov'],
            {'RUSTFLAGS': '-Cinstrument-coverage'}, 'target-cov/release/sm9exec'),
    'asan': (['+nightly', 'build', '--release', '--target', 'x86_64-unknown-linux-gnu', '--target-dir', 'target-asan'],
             {'RUSTFLAGS': '-Zsanitizer=address -Cforce-frame-pointers=yes'},
             'target-asan/x86_64-unknown-linux-gnu/release/sm9exec'),
    'tsan': (['+nightly', 'build', '--release', '-Zbuild-std', '--target', 'x86_64-unknown-linux-gnu',
              '--target-dir', 'target-tsan'],
             {'RUSTFLAGS': '-Zsanitizer=thread'},
             'target-tsan/x86_64-unknown-linux-gnu/release/sm9exec'),
}


# hook groups that can be compiled out one by one (cfg john_yu_sm9_core_verif_skip_<group>): the first six name a wrapper inside
# /repo's verif hooks, the others a private method the executor calls directly on a re-exported internal type
HOOK_GROUPS = ['raw', 'sop', 'pow', 'fexp', 'prep', 'consts', 'f4x', 'f12x', 'powfr', 'fexpm', 'ml', 'fqx']
_HOOKS = {}       # 'level': lines | base | partial | none, 'skipped': [...], 'flags': rustc cfg flags


def _probe(job):
    """does the executor type-check against /repo's current tree with these cfg flags? (cargo check, no code generation)"""
    i, flags = job
    e = _cargo_env({'RUSTFLAGS': flags})
    d = 'target-probe-%d' % i
    try:
        p = subprocess.run(['cargo', 'check', '--target-dir', d], cwd=EXEC_DIR, env=e, stdout=subprocess.PIPE, stderr=subprocess.STDOUT, text=True)
        return p.returncode == 0
    finally:
        shutil.rmtree(os.path.join(EXEC_DIR, d), ignore_errors=True)


def _resolve_hooks():
    """Called after a build with every hook enabled has failed: find out which hook groups still compile against this tree.
    all groups off fails -> level none (public API only); otherwise each group (and the optional line-function hooks) is
    tried on its own (probes run side by side, each in its own scratch target directory) and the failing ones are dropped."""
    from concurrent.futures import ThreadPoolExecutor
    skip = lambda gs: ' '.join('--cfg %s_skip_%s' % (GUARD, g) for g in gs)
    base = '--cfg %s' % GUARD
    jobs = [base + ' ' + skip(HOOK_GROUPS)]
    jobs += [base + ' ' + skip([h for h in HOOK_GROUPS if h != g]) for g in HOOK_GROUPS]
    jobs.append('%s --cfg %s_lines %s' % (base, GUARD, skip(HOOK_GROUPS)))
    with ThreadPoolExecutor(max_workers=len(jobs)) as ex:
        res = list(ex.map(_probe, enumerate(jobs)))
    if not res[0]:
        return {'level': 'none', 'skipped': HOOK_GROUPS + ['lines'], 'flags': '--cfg sm9exec_nohooks'}
    bad = [g for g, ok in zip(HOOK_GROUPS, res[1:1 + len(HOOK_GROUPS)]) if not ok]
    lines_ok = res[-1]
    flags = (base + (' --cfg %s_lines' % GUARD if lines_ok else '') + ' ' + skip(bad)).strip()
    level = 'partial' if bad else ('lines' if lines_ok else 'base')
    return {'level': level, 'skipped': bad + ([] if lines_ok else ['lines']), 'flags': flags}


def _tree_key():
    """content hash of the sources a probe result depends on (the tree under test and the executor)"""
    h = hashlib.sha256()
    for root in (os.path.join(REPO, 'src'), os.path.join(EXEC_DIR, 'src')):
        for d, _dirs, files in sorted(os.walk(root)):
            for f in sorted(files):
                fp = os.path.join(d, f)
                h.update(fp.encode() + b'\0')
                with open(fp, 'rb') as fh:
                    h.update(fh.read())
    for fp in (os.path.join(REPO, 'Cargo.toml'), os.path.join(EXEC_DIR, 'Cargo.toml')):
        with open(fp, 'rb') as fh:
            h.update(fh.read())
    return h.hexdigest()


def _resolve_hooks_cached():
    """the probe result for exactly this source content is remembered under executor/target (build output, never committed): it only
    selects which cfg set the real build - always from the current tree - tries next"""
    cache = os.path.join(EXEC_DIR, 'target', 'hook-probe-cache.json')
    key = _tree_key()
    try:
        c = json.load(open(cache))
    except Exception:
        c = {}
    if key in c:
        return c[key]
    res = _resolve_hooks()
    c[key] = res
    try:
        os.makedirs(os.path.dirname(cache), exist_ok=True)
        tmp = cache + '.%d' % os.getpid()
        json.dump(c, open(tmp, 'w'))
        os.replace(tmp, cache)
    except OSError:
        pass
    return res


def hook_flags():
    """cfg flags of the hook set in use (decided by the first build of this process)"""
    return _HOOKS.get('flags', '--cfg %s --cfg %s_lines' % (GUARD, GUARD))


def build(name, quiet=True):
    """(Re)build one executor flavour from /repo's current working tree. Returns the binary path.
    Hooks: first with every hook; if that does not compile (an internal item the hooks name was refactored) the set of hook groups
    that still compile is determined once (_resolve_hooks) and used for every build of this process. Ops of a dropped group answer
    'bad unknown op' and are skipped by the monitors; with no hooks at all C17 becomes inconclusive."""
    if name == 'release' and os.environ.get('VERIF_RELEASE_FLAVOUR'):
        name = os.environ['VERIF_RELEASE_FLAVOUR']
    argv, env, rel = _BUILD[name]
    cmd = ['cargo'] + argv
    t0 = time.time()
    extra = env.get('RUSTFLAGS', '')

    def attempt(flags):
        e = dict(env)
        e['RUSTFLAGS'] = (flags + ' ' + extra).strip()
        return subprocess.run(cmd, cwd=EXEC_DIR, env=_cargo_env(e), stdout=subprocess.PIPE, stderr=subprocess.STDOUT, text=True)

    p = attempt(hook_flags())
    if p.returncode != 0 and not _HOOKS:
        _HOOKS.update(_resolve_hooks_cached())
        p = attempt(hook_flags())
        if p.returncode != 0 and _HOOKS['level'] != 'none':
            # groups that compile one by one but not together: public API only
            _HOOKS.update({'level': 'none', 'skipped': HOOK_GROUPS + ['lines'], 'flags': '--cfg sm9exec_nohooks'})
            p = attempt(hook_flags())
    if p.returncode != 0:
        tail = '\n'.join(p.stdout.splitlines()[-40:])
        raise Inconclusive('build of %s executor failed (cargo exit %d):\n%s' % (name, p.returncode, tail))
    if not _HOOKS:
        _HOOKS.update({'level': 'lines', 'skipped': [], 'flags': hook_flags()})
    HOOK_LEVEL[name] = _HOOKS['level']
    path = os.path.join(EXEC_DIR, rel)
    if not os.path.exists(path):
        raise Inconclusive('build of %s executor produced no binary at %s' % (name, path))
    if not quiet:
        print('built %s executor in %.1fs' % (name, time.time() - t0))
    return path


def repo_state():
    def git(*a):
        try:
            return subprocess.run(['git', '-C', REPO] + list(a), stdout=subprocess.PIPE, stderr=subprocess.DEVNULL, text=True).stdout.strip()
        except Exception:
            return ''
    return {'head': git('rev-parse', 'HEAD'), 'dirty_files': [l[3:] for l in git('status', '--porcelain', '--untracked-files=no').splitlines()]}


# --------------------------------------------------------------------------- executor process
def _die_with_parent():
    # PR_SET_PDEATHSIG = 1, SIGKILL = 9: a spinning executor must not outlive a killed check
    try:
        import ctypes
        ctypes.CDLL('libc.so.6').prctl(1, 9)
    except Exception:
        pass


class Executor:
    def __init__(self, path, env=None):
        self.path = path
        self.env = env
        self.p = None
        self.buf = b''

    def start(self):
        self.close()
        e = dict(os.environ)
        if self.env:
            e.update(self.env)
        self.p = subprocess.Popen([self.path], stdin=subprocess.PIPE, stdout=subprocess.PIPE, stderr=subprocess.PIPE, env=e, bufsize=0,
                                  preexec_fn=_die_with_parent)
        self.buf = b''

    def close(self):
        if self.p is not None:
            # end of input first (lets an instrumented executor flush its counters), then kill
            try:
                self.p.stdin.close()
                self.p.wait(timeout=3)
            except Exception:
                pass
            try:
                self.p.kill()
            except Exception:
                pass
            try:
                self.p.wait(timeout=5)
            except Exception:
                pass
            for f in (self.p.stdin, self.p.stdout, self.p.stderr):
                try:
                    f.close()
                except Exception:
                    pass
            self.p = None

    def _readline(self, timeout):
        """one answer line, or None on timeout, or '' on EOF"""
        fd = self.p.stdout.fileno()
        deadline = time.time() + timeout
        while b'\n' not in self.buf:
            left = deadline - time.time()
            if left <= 0:
                return None
            rl, _, _ = select.select([fd], [], [], min(left, 5.0))
            if rl:
                chunk = os.read(fd, 1 << 16)
                if not chunk:
                    return ''
                self.buf += chunk
        line, self.buf = self.buf.split(b'\n', 1)
        return line.decode('utf-8', 'replace')

    def run_par(self, lines, nthreads, timeout=LINE_TIMEOUT_S * 3):
        """Execute the program on `nthreads` threads at once inside the executor (own register file each); one answer per line:
        the common answer, or 'par-mismatch …' when the threads disagree."""
        if self.p is None or self.p.poll() is not None:
            self.start()
        data = ('\n'.join(['!reset', '!par %d %d' % (nthreads, PAR_REPS)] + list(lines) + ['!endpar']) + '\n').encode()
        import threading
        th = threading.Thread(target=self._write_all, args=(data,), daemon=True)
        th.start()
        answers = []
        for i in range(len(lines) + 1):
            ans = self._readline(timeout)
            if ans is None:
                self.close()
                answers.append('hang?')
                answers.extend(['skipped'] * (len(lines) - i))
                return answers[1:]
            if ans == '':
                rc = self.p.wait()
                err = b''
                try:
                    err = self.p.stderr.read() or b''
                except Exception:
                    pass
                self.close()
                answers.append('died rc=%s %s' % (rc, err.decode('utf-8', 'replace').strip().replace('\n', ' | ')[:600]))
                answers.extend(['skipped'] * (len(lines) - i))
                return answers[1:]
            answers.append(ans)
        th.join(timeout=5)
        return answers[1:]

    def _write_all(self, data):
        try:
            self.p.stdin.write(data)
            self.p.stdin.flush()
        except Exception:
            pass

    def run(self, lines, timeout=LINE_TIMEOUT_S, solo=True):
        """Execute program lines from a fresh register file. Returns one answer string per line.
        Special answers: 'hang' (reproduced when run alone), 'hang?' (not reproduced), 'died <info>', 'skipped'."""
        if self.p is None or self.p.poll() is not None:
            self.start()
        answers = []
        todo = ['!reset'] + list(lines)
        pos = 0
        n = len(todo)
        while pos < n:
            # batch whose bytes fit the pipe buffer, so that writing can never block against unread answers
            size = 0
            end = pos
            while end < n and (end == pos or size + len(todo[end]) + 1 < 48000) and end - pos < 2000:
                size += len(todo[end]) + 1
                end += 1
            data = ('\n'.join(todo[pos:end]) + '\n').encode()
            try:
                self.p.stdin.write(data)
                self.p.stdin.flush()
            except (BrokenPipeError, OSError):
                pass
            for i in range(pos, end):
                ans = self._readline(timeout)
                if ans is None:                     # suspected hang on line i
                    self.close()
                    verdict = 'hang?'
                    if solo:
                        verdict = self._solo(todo[1:i + 1])
                    answers.append(verdict)
                    answers.extend(['skipped'] * (n - i - 1))
                    return answers[1:]
                if ans == '':                       # process died
                    rc = self.p.wait()
                    err = b''
                    try:
                        err = self.p.stderr.read() or b''
                    except Exception:
                        pass
                    self.close()
                    answers.append('died rc=%s %s' % (rc, err.decode('utf-8', 'replace').strip().replace('\n', ' | ')[:600]))
                    answers.extend(['skipped'] * (n - i - 1))
                    return answers[1:]
                answers.append(ans)
            pos = end
        return answers[1:]

    def _solo(self, lines):
        """Re-run a program whose last line did not answer, alone, with a generous limit."""
        ex = Executor(self.path, self.env)
        try:
            res = ex.run(lines, timeout=SOLO_TIMEOUT_S, solo=False)
            return 'hang' if res and res[-1] == 'hang?' else 'hang?'
        finally:
            ex.close()


# --------------------------------------------------------------------------- per-case context
def h64(key):
    return int.from_bytes(hashlib.blake2b(repr(key).encode(), digest_size=8).digest(), 'big')


class Ctx:
    """What a property module sees while it runs one case."""

    def __init__(self, pid, tier, seed, exes):
        self.pid = pid
        self.tier = tier
        self.seed = seed
        self.exe_paths = exes          # name -> path
        self.hooks = exes.get('_hooks', 'lines')        # lines | base | partial | none
        self.skipped = exes.get('_skipped', [])         # hook groups that do not compile against this tree
        self.mode = exes.get('_mode')      # None | 'repeat' | 'par': metamorphic perturbation passes (see run())
        self._ex = {}
        self.evals = 0
        self.classes = collections.Counter()
        self.distinct = set()
        self.violations = []
        self.samples = {}
        self.extra = collections.Counter()
        self.notes = []
        self.idx = None
        self.spec = None
        self.rng = None
        self.trace = []
        self.hangs = 0

    # -- case lifecycle
    def begin(self, idx, spec):
        self.idx = idx
        self.spec = spec
        self.rng = random.Random('%s/%s/%s/%s' % (self.pid, self.tier, self.seed, idx))
        self.trace = []

    # -- running programs
    def run(self, lines, exe='release'):
        if exe not in self._ex:
            if exe not in self.exe_paths:
                raise Inconclusive('executor %s not built for this check' % exe)
            env = None
            if exe == 'asan':
                env = {'ASAN_OPTIONS': 'halt_on_error=1:abort_on_error=0:detect_leaks=1:exitcode=77'}
            if exe == 'tsan':
                env = {'TSAN_OPTIONS': 'halt_on_error=1:exitcode=66'}
            self._ex[exe] = Executor(self.exe_paths[exe], env)
        if self.mode == 'repeat':
            # every call is made twice in a row (the first time into no register): a pure function must answer the same
            doubled = []
            for l in lines:
                dst, _, rest = l.partition(' ')
                doubled.append('_ ' + rest)
                doubled.append(l)
            both = self._ex[exe].run(doubled)
            ans = both[1::2]
            for l, a1, a2 in zip(lines, both[0::2], both[1::2]):
                if not same_observation(a1, a2) and a1 not in ('skipped',) and a2 not in ('skipped',):
                    self.fail('repeat-mismatch|' + l.split()[1], 'the same call made twice in a row answers differently: first %r, then %r (%s)' % (a1[:120], a2[:120], l[:200]),
                              line=l, first=a1, second=a2)
                    break
            self.classes['perturb/repeat'] += len(lines)
        elif self.mode == 'par':
            ans = self._ex[exe].run_par(lines, 8)
            for k_, (l, a) in enumerate(zip(lines, ans)):
                if a.startswith('par-mismatch'):
                    per_thread = a[len('par-mismatch '):].split('\t')
                    if all(same_observation(per_thread[0], t_) for t_ in per_thread[1:]):
                        ans[k_] = per_thread[0]          # different representatives of the same point: the same observation
                        continue
                    self.fail('parallel-mismatch|' + l.split()[1], 'the same call answers differently on concurrently running threads: %s (%s)' % (a[:400], l[:200]), line=l, observed=a)
                    break
            self.classes['perturb/parallel'] += len(lines)
        else:
            ans = self._ex[exe].run(lines)
        self.trace.append({'exe': exe, 'program': list(lines), 'answers': ans})
        if 'hang?' in ans:
            # the watchdog fired but the open call returned when re-run alone (or could not be re-run): not a verdict
            raise Inconclusive('watchdog fired on a call that is not reproducibly non-returning (machine overloaded?)')
        if any(a.startswith('died rc=-9') for a in ans):
            raise Inconclusive('the executor was killed from outside (SIGKILL)')
        if 'hang' in ans:
            self.hangs += 1
        return ans

    # -- recording observations
    def ok(self, cls, key=None, nontrivial=True, n=1):
        """an event that was judged and satisfied the oracle"""
        self.evals += n
        self.classes[cls] += n
        if nontrivial and key is not None:
            self.distinct.add(h64((cls.split('/')[0], key)))

    def count(self, name, n=1):
        self.extra[name] += n

    def sample(self, cls, obj):
        if cls not in self.samples:
            self.samples[cls] = obj

    def fail(self, sig, msg, **detail):
        """an event that contradicts the oracle"""
        self.evals += 1
        d = {'sig': sig, 'msg': msg, 'case': self.idx, 'spec': self.spec}
        for k, v in detail.items():
            d[k] = v if isinstance(v, (int, str, list, dict, bool, type(None))) else repr(v)
        d['trace'] = [{'exe': t['exe'], 'program': t['program'], 'answers': t['answers']} for t in self.trace[-3:]]
        if len(self.violations) < 50:
            self.violations.append(d)
        else:
            self.extra['violations_dropped'] += 1

    def close(self):
        for e in self._ex.values():
            e.close()

    def result(self):
        return {
            'evals': self.evals, 'classes': dict(self.classes), 'distinct': array.array('Q', self.distinct).tobytes(),
            'violations': self.violations, 'samples': self.samples, 'extra': dict(self.extra), 'notes': self.notes, 'hangs': self.hangs,
        }


def same_observation(a1, a2):
    """two answers to the same call are the same observation if they are equal, or if both are Jacobian triples of the same
    group that denote the same point (which representative a call returns is not specified by any property)"""
    if a1 == a2:
        return True
    if a1.startswith('ok ') and a2.startswith('ok ') and len(a1) == len(a2) and len(a1) - 3 in (192, 384):
        from . import rm
        F = rm.F1 if len(a1) - 3 == 192 else rm.F2
        try:
            return rm.jac_affine(F, rm.jac_parse(F, a1[3:])) == rm.jac_affine(F, rm.jac_parse(F, a2[3:]))
        except Exception:
            return False
    return False


def parse(ans):
    """answer line -> (kind, payload)"""
    k, _, rest = ans.partition(' ')
    return k, rest


# --------------------------------------------------------------------------- worker pool
_W = {}


def _worker_init(pid, tier, seed, exes):
    _W['mod'] = importlib.import_module('vlib.props.' + pid.lower())
    _W['args'] = (pid, tier, seed, exes)


def _worker_batch(batch):
    pid, tier, seed, exes = _W['args']
    mod = _W['mod']
    ctx = Ctx(pid, tier, seed, exes)
    internal = []
    try:
        for idx, spec in batch:
            ctx.begin(idx, spec)
            try:
                mod.run(ctx, spec)
            except Inconclusive as e:
                internal.append('case %s: %s' % (idx, e))
            except Exception:
                internal.append('case %s spec %r: %s' % (idx, spec, traceback.format_exc()))
            if ctx.hangs:
                # a call that does not return costs minutes each time: one confirmed hang per worker batch is enough
                ctx.extra['cases-skipped-after-hang'] += len(batch) - 1 - [i for i, _ in batch].index(idx)
                break
    finally:
        ctx.close()
    res = ctx.result()
    res['internal'] = internal
    return res


class Agg:
    def __init__(self):
        self.evals = 0
        self.classes = collections.Counter()
        self.distinct = set()
        self.distinct_capped = False
        self.violations = []
        self.samples = {}
        self.extra = collections.Counter()
        self.internal = []
        self.notes = []

    CAP = 4_000_000

    def add(self, res):
        self.evals += res['evals']
        self.classes.update(res['classes'])
        if len(self.distinct) < self.CAP:
            a = array.array('Q')
            a.frombytes(res['distinct'])
            self.distinct.update(a)
        else:
            self.distinct_capped = True
        self.violations.extend(res['violations'])
        for k, v in res['samples'].items():
            self.samples.setdefault(k, v)
        self.extra.update(res['extra'])
        self.internal.extend(res['internal'])
        self.notes.extend(res['notes'])


def run_cases(pid, tier, seed, exes, cases, batch=None, jobs=None, progress=False, indexed=None):
    """cases: list of specs (or `indexed`: list of (index, spec) pairs keeping the indices of the main pass). Returns Agg."""
    agg = Agg()
    indexed = list(enumerate(cases)) if indexed is None else list(indexed)
    if not indexed:
        return agg
    jobs = jobs or NCPU
    if batch is None:
        batch = max(1, min(200, len(indexed) // (jobs * 8) or 1))
    batches = [indexed[i:i + batch] for i in range(0, len(indexed), batch)]
    if jobs == 1 or len(batches) == 1:
        _worker_init(pid, tier, seed, exes)
        for b in batches:
            agg.add(_worker_batch(b))
        return agg
    ctxm = multiprocessing.get_context('fork')
    with ctxm.Pool(jobs, initializer=_worker_init, initargs=(pid, tier, seed, exes)) as pool:
        done = 0
        hangs = 0
        for res in pool.imap_unordered(_worker_batch, batches):
            agg.add(res)
            done += 1
            hangs += res.get('hangs', 0)
            if hangs >= 3:
                agg.extra['run-cut-short-after-hangs'] += 1
                pool.terminate()
                break
            if progress and done % max(1, len(batches) // 10) == 0:
                print('  … %d/%d batches, %d events, %d violations' % (done, len(batches), agg.evals, len(agg.violations)), flush=True)
    return agg


# --------------------------------------------------------------------------- known findings
def load_known(pid):
    """lines 'finding: property=Cxx sig=<sig> <text>' suppress exactly that signature; 'fixed:' lines suppress nothing."""
    out = {}
    path = os.path.join(VERIF, 'KNOWN_FINDINGS.txt')
    if not os.path.exists(path):
        return out
    for line in open(path):
        line = line.strip()
        if not line.startswith('finding:'):
            continue
        parts = line.split()
        kv = dict(p.split('=', 1) for p in parts[1:3] if '=' in p)
        if kv.get('property') == pid and 'sig' in kv:
            out[kv['sig']] = ' '.join(parts[3:])
    return out


# --------------------------------------------------------------------------- main entry used by ./check
def main_check(pid, tier, seed, replay=None, jobs=None, verbose=False):
    t0 = time.time()
    mod = importlib.import_module('vlib.props.' + pid.lower())
    from . import rm
    evidence_path = os.path.join(VERIF, 'evidence', pid + '.json')
    os.makedirs(os.path.dirname(evidence_path), exist_ok=True)

    def inconclusive(why):
        print('INCONCLUSIVE property=%s %s' % (pid, why))
        return 2

    bad = rm.selftest()
    if bad:
        return inconclusive('reference-model self-test failed: %s' % bad)

    need = mod.EXES(tier) if callable(getattr(mod, 'EXES', None)) else getattr(mod, 'EXES', ['release'])
    exes = {}
    try:
        for name in need:
            exes[name] = build(name)
    except Inconclusive as e:
        return inconclusive(str(e))
    exes['_hooks'] = _HOOKS.get('level', 'lines')
    exes['_skipped'] = list(_HOOKS.get('skipped', []))
    if exes['_hooks'] == 'none' and getattr(mod, 'NEEDS_HOOKS', False):
        return inconclusive('the cfg(%s) hooks do not compile against this tree and this property can only be observed through them' % GUARD)

    if replay:
        rp = json.load(open(replay))
        cases = None
        if rp.get('mode'):
            exes['_mode'] = rp['mode']
        spec_list = [(rp['case'], rp['spec'])]
        _worker_init(pid, rp.get('tier', tier), rp.get('seed', seed), exes)
        _W['args'] = (pid, rp.get('tier', tier), rp.get('seed', seed), exes)
        agg = Agg()
        # a violation found by the parallel pass depends on thread timing: the replay is attempted up to 12 times
        for _attempt in range(12 if rp.get('mode') == 'par' else 1):
            res = _worker_batch([(rp['case'], _untuple(rp['spec']))])
            agg.add(res)
            if res['violations']:
                break
        tier = rp.get('tier', tier)
        seed = rp.get('seed', seed)
    else:
        cases = mod.cases(tier, seed)
        agg = run_cases(pid, tier, seed, exes, cases, batch=getattr(mod, 'BATCH', None), jobs=jobs, progress=verbose)

    # metamorphic perturbation passes on a spread sample of the same cases: every call made twice in a row (hidden state such as a
    # memo of the last query), and every program run on 8 threads at once (shared mutable state, races)
    perturb = {}
    if not replay and cases and not getattr(mod, 'NO_PERTURB', False):
        nsel = getattr(mod, 'PERTURB', (24, 240))[0 if tier == 'quick' else 1]
        stepp = max(1, len(cases) // nsel)
        sel = [(i, cases[i]) for i in range(0, len(cases), stepp)][:nsel]
        for mode in ('repeat', 'par'):
            ex2 = dict(exes)
            ex2['_mode'] = mode
            a2 = run_cases(pid, tier, seed, ex2, None, batch=max(1, len(sel) // (NCPU * 2)), jobs=jobs if mode == 'repeat' else max(2, (jobs or NCPU) // 4), indexed=sel)
            perturb[mode] = {'cases': len(sel), 'events': int(a2.evals), 'violations': len(a2.violations)}
            for v in a2.violations:
                v['mode'] = mode
            agg.violations.extend(a2.violations)
            agg.internal.extend(a2.internal)
            agg.evals += a2.evals
            for k in ('perturb/repeat', 'perturb/parallel'):
                if a2.classes.get(k):
                    agg.classes[k] += a2.classes[k]

    stage_reports = []
    if not replay and hasattr(mod, 'stages'):
        for st in mod.stages(tier, seed):
            try:
                rep = st(exes)
            except Inconclusive as e:
                rep = {'name': getattr(st, '__name__', 'stage'), 'ran': False, 'skipped': str(e)}
            except Exception:
                rep = {'name': getattr(st, '__name__', 'stage'), 'ran': False, 'skipped': 'stage crashed: ' + traceback.format_exc()[-800:]}
            for v in rep.pop('violations', []):
                agg.violations.append(v)
            agg.evals += rep.get('events', 0)
            stage_reports.append(rep)

    known = load_known(pid)
    new_viol, known_hit = [], collections.OrderedDict()
    for v in agg.violations:
        if v['sig'] in known:
            known_hit.setdefault(v['sig'], known[v['sig']])
        else:
            new_viol.append(v)

    required = list(getattr(mod, 'REQUIRED', []))
    if callable(getattr(mod, 'required', None)):
        required = mod.required(tier)
    missing = [c for c in required if agg.classes.get(c, 0) == 0] if not replay else []
    waived = []
    if exes.get('_hooks') in ('none', 'partial'):
        # classes that can only be observed through the hooks cannot be required when (some of) the hooks do not compile
        hook_cls = tuple(getattr(mod, 'HOOK_CLASSES', ()))
        if hook_cls:
            waived = [c for c in missing if c.startswith(hook_cls)]
            missing = [c for c in missing if not c.startswith(hook_cls)]

    # replays
    replay_paths = []
    if new_viol:
        rdir = os.path.join(VERIF, 'replays')
        os.makedirs(rdir, exist_ok=True)
        seen = set()
        for v in new_viol:
            if v['case'] in seen or len(replay_paths) >= 10:
                continue
            seen.add(v['case'])
            path = os.path.join(rdir, '%s-%s-%s-%s%s.json' % (pid, tier, seed, v['case'], ('-' + v['mode']) if v.get('mode') else ''))
            json.dump({'property': pid, 'tier': tier, 'seed': seed, 'case': v['case'], 'spec': v['spec'], 'sig': v['sig'], 'mode': v.get('mode'),
                       'msg': v['msg'], 'detail': {k: v[k] for k in v if k not in ('trace',)}, 'trace': v.get('trace', []),
                       'repo': repo_state()}, open(path, 'w'), indent=1, default=repr)
            replay_paths.append((v, path))

    wall = time.time() - t0
    samples = []
    for k in sorted(agg.samples)[:24]:
        samples.append({'class': k, 'case': agg.samples[k]})
    ndist = len(agg.distinct)
    rule = getattr(mod, 'RULE', '')
    if agg.distinct_capped:
        rule += ' [distinct set capped at %d hashes: the number is a lower bound]' % Agg.CAP
    cov = {
        'evaluations': int(agg.evals),
        'distinct_nontrivial': int(ndist),
        'rule': rule,
        'samples': samples,
        'classes': {k: int(v) for k, v in sorted(agg.classes.items())},
        'required_classes_missing': missing,
        'counters': {k: int(v) for k, v in sorted(agg.extra.items())},
        'cases': (len(cases) if cases is not None else 1),
        'executors': sorted(k for k in exes if not k.startswith('_')),
        'hooks_level': exes.get('_hooks'),
        'hook_groups_unavailable': exes.get('_skipped', []),
        'required_classes_waived_hooks_unavailable': waived,
        'stages': stage_reports,
        'perturbation_passes': perturb if not replay else {},
        'repo': repo_state(),
        'exhaustive': bool(getattr(mod, 'exhaustive', lambda tier: False)(tier)) if not replay else False,
        'known_findings_hit': list(known_hit),
        'internal_errors': agg.internal[:5],
        'mode': 'replay' if replay else 'full',
    }
    ev = {
        'property_id': pid, 'tier': tier, 'seed': int(seed), 'level': 'exploration', 'coverage': cov,
        'assumptions': list(getattr(mod, 'ASSUMPTIONS', [])) + [
            'CPython integer arithmetic and the reference model vlib/rm.py (self-tested against the standard vectors at the start of this run)',
            'the executor makes exactly one sm9_core call per program line and prints values through the crate\'s own to_slice'],
        'wall_s': round(wall, 2), 'violations': len(new_viol),
    }
    if not replay:
        json.dump(ev, open(evidence_path, 'w'), indent=1, default=repr)

    for sig, text in known_hit.items():
        print('KNOWN-FINDING: property=%s %s %s' % (pid, sig, text))
    print('%s %s seed=%s: %d events judged, %d distinct non-trivial, %d classes, %d cases, %.1fs' % (
        pid, tier, seed, agg.evals, ndist, len(agg.classes), cov['cases'], wall))
    for rep in stage_reports:
        print('  stage %s: %s' % (rep.get('name'), 'ran, %s events, %s reports' % (rep.get('events', 0), rep.get('reports', 0)) if rep.get('ran') else 'skipped (%s)' % str(rep.get('skipped'))[:200]))
    if new_viol:
        for v, path in replay_paths:
            print('  violation: [%s] %s' % (v['sig'], v['msg'][:300]))
            print('VIOLATION property=%s replay=%s' % (pid, path))
        return 1
    if agg.internal:
        print(agg.internal[0][-1500:])
        return inconclusive('%d case(s) could not be judged (harness error)' % len(agg.internal))
    if missing:
        return inconclusive('required classes never observed: %s' % missing[:8])
    if agg.evals == 0:
        return inconclusive('nothing was observed')
    print('held on everything explored')
    return 0


def _untuple(x):
    if isinstance(x, list):
        return tuple(_untuple(i) for i in x)
    return x
