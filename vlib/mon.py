"""Small helpers shared by the property monitors."""
from . import rm
from .rm import q, r, h32


def want_val(hexstr):
    return 'ok ' + hexstr


def check(ctx, ans, want, sig, cls, key, line=None, nontrivial=True, **detail):
    """Compare one answer with the model's expectation (exact string)."""
    if ans == want:
        ctx.ok(cls, key, nontrivial)
        return True
    if ans.startswith('bad unknown op') and getattr(ctx, 'hooks', 'lines') == 'none':
        ctx.count('hook-unavailable')        # the executor was built without the cfg hooks (they do not compile against this tree)
        return True
    ctx.fail(sig, '%s: observed %r, model expects %r%s' % (cls, ans[:200], want[:200], (' for ' + line[:300]) if line else ''),
             observed=ans, expected=want, line=line, **detail)
    return False


def is_abnormal(ans):
    """answers that no correct single call can produce for a well-formed program line"""
    k = ans.split(' ', 1)[0]
    return k in ('panic', 'bad', 'hang', 'hang?', 'died', 'skipped')


def f2hex(x):
    return h32(x[1]) + h32(x[0])


def hex_f2(s):
    return (int(s[64:128], 16), int(s[:64], 16))


def parse_jac(which, payload):
    F = rm.F1 if which == 1 else rm.F2
    return rm.jac_parse(F, payload)


def affine_of(which, payload):
    """affine RM point denoted by an 'ok x|y|z' payload (None = identity); raises on malformed"""
    F = rm.F1 if which == 1 else rm.F2
    xyz = rm.jac_parse(F, payload)
    for c in xyz:
        for v in ((c,) if which == 1 else c):
            if v >= q:
                raise ValueError('coordinate not below q')
    return rm.jac_affine(F, xyz), xyz


def gt_parse(payload):
    """768 hex chars -> flat RM element, checking every limb is below q; raises ValueError otherwise"""
    if len(payload) != 768:
        raise ValueError('Gt encoding has %d hex chars' % len(payload))
    a = rm.de12(bytes.fromhex(payload))
    if any(c >= q for c in a):
        raise ValueError('Gt limb not below q')
    return a


def gt_hex(a):
    return rm.ser12(list(a)).hex()
