"""Small helpers shared by the property monitors."""
from . import rm
from .rm import q, r, h32


def want_val(hexstr):
    return 'ok ' + hexstr


def check(ctx, ans, want, sig, cls, key, line=None, nontrivial=True, **detail):
    """Compare one answer with the model's expectation (exact string)."""
    if ans == want:
        ctx.ok(cls, key, nontrivial)
        return True
    if hook_unavailable(ctx, ans):
        return True
    ctx.fail(sig, '%s: observed %r, model expects %r%s' % (cls, ans[:200], want[:200], (' for ' + line[:300]) if line else ''),
             observed=ans, expected=want, line=line, **detail)
    return False


def hook_unavailable(ctx, ans, line=None, dead=None):
    """True if this answer only says that the op belongs to a hook group that does not compile against the tree under test (the
    executor was built without it), or that it uses a register such an op should have defined. `dead`: set of register names,
    maintained across the lines of one program."""
    if getattr(ctx, 'hooks', 'lines') not in ('none', 'partial'):
        return False
    toks = line.split() if line else []
    if ans.startswith('bad unknown op'):
        if dead is not None and toks and toks[0] != '_':
            dead.add(toks[0])
        ctx.count('hook-unavailable' + (':' + toks[1] if len(toks) > 1 else ''))
        return True
    if dead and ans.startswith('bad noreg') and any(t[1:] in dead for t in toks[2:] if t.startswith('$')):
        if toks[0] != '_':
            dead.add(toks[0])
        ctx.count('hook-unavailable:dependent')
        return True
    return False


def is_abnormal(ans):
    """answers that no correct single call can produce for a well-formed program line"""
    k = ans.split(' ', 1)[0]
    return k in ('panic', 'bad', 'hang', 'hang?', 'died', 'skipped')


def f2hex(x):
    return h32(x[1]) + h32(x[0])


def hex_f2(s):
    return (int(s[64:128], 16), int(s[:64], 16))


def parse_jac(which, payload):
    F = rm.F1 if which == 1 else rm.F2
    return rm.jac_parse(F, payload)


def affine_of(which, payload):
    """affine RM point denoted by an 'ok x|y|z' payload (None = identity); raises on malformed"""
    F = rm.F1 if which == 1 else rm.F2
    xyz = rm.jac_parse(F, payload)
    for c in xyz:
        for v in ((c,) if which == 1 else c):
            if v >= q:
                raise ValueError('coordinate not below q')
    return rm.jac_affine(F, xyz), xyz


def gt_parse(payload):
    """768 hex chars -> flat RM element, checking every limb is below q; raises ValueError otherwise"""
    if len(payload) != 768:
        raise ValueError('Gt encoding has %d hex chars' % len(payload))
    a = rm.de12(bytes.fromhex(payload))
    if any(c >= q for c in a):
        raise ValueError('Gt limb not below q')
    return a


def gt_hex(a):
    return rm.ser12(list(a)).hex()
