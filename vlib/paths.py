"""White-box coverage model (informational only, never a verdict): a Python replica of the crate's Montgomery reduction loop,
used to MEASURE which internal carry paths the generated operands drive. The replica mirrors `U256::mul_without_cond_subtract`
/ `U256::square` (identical reduction rows) and `Fq::sum_of_products` at the pinned commit; if the implementation is refactored
the event names lose their meaning but nothing is judged with them."""
from .rm import R

M = (1 << 64) - 1


def _limbs(x, n):
    return [(x >> (64 * i)) & M for i in range(n)]


def reduction_events(S, p, inv):
    """S: the 512-bit product A*B (or A*A). Returns (set of event names, unreduced result u)."""
    r = _limbs(S, 8)
    m = _limbs(p, 4)
    ev = set()
    carry2 = 0
    for i in range(4):
        k = (r[i] * inv) & M
        if k == 0:
            ev.add('k=0@%d' % i)
        if k == M:
            ev.add('k=max@%d' % i)
        carry = (r[i] + k * m[0]) >> 64
        for j in range(1, 4):
            t = r[i + j] + k * m[j] + carry
            r[i + j] = t & M
            carry = t >> 64
        hi = r[4 + i]
        if carry2:
            ev.add('pending-carry@%d' % i)
        if hi == M:
            ev.add('high-limb=max@%d' % i)
        first = hi + carry
        if first >> 64:
            ev.add('overflow-by-row-carry@%d' % i)
        if (first & M) == M and carry2:
            ev.add('overflow-by-pending-carry-only@%d' % i)          # the "second overflow": lost by a two-step addition
        if k == 0 and carry2 and i >= 1:
            ev.add('k=0&pending@%d' % i)
            if hi == M:
                ev.add('k=0&pending&high-limb=max@%d' % i)
        t = first + carry2
        r[4 + i] = t & M
        carry2 = t >> 64
    u = sum(r[4 + i] << (64 * i) for i in range(4)) + (carry2 << 256)
    if carry2:
        ev.add('carry-out-of-2^256')
    low = u & (R - 1)
    if u == p:
        ev.add('unreduced=p')
    if u == R:
        ev.add('unreduced=2^256')
    if not carry2 and low >= p:
        ev.add('subtract(no-carry)')
    if carry2 and low >= p:
        ev.add('carry&low>=p')
    return ev, u


def mul_events(A, B, p):
    inv = (-pow(p, -1, 1 << 64)) % (1 << 64)
    ev, u = reduction_events(A * B, p, inv)
    return ev


def sop_events(As, Bs, p):
    """interleaved sum of products: quotient digits, the value of the fifth limb u4, and the final folding"""
    inv = (-pow(p, -1, 1 << 64)) % (1 << 64)
    S = sum(a * b for a, b in zip(As, Bs))
    K = (S * ((-pow(p, -1, R)) % R)) % R
    u = (S + K * p) >> 256
    ev = set()
    for i, k in enumerate(_limbs(K, 4)):
        if k == 0:
            ev.add('sop:k=0@%d' % i)
        if k == M:
            ev.add('sop:k=max@%d' % i)
    u4 = u >> 256
    ev.add('sop:u4=%d' % u4)
    low = u & (R - 1)
    if u4 and low >= p:
        ev.add('sop:carry&low>=p')
    if u4 >= 1 and u - R * u4 + (R % p) * u4 >= 2 * p:
        ev.add('sop:two-subtractions-after-fold')
    if u % p == 0 and S:
        ev.add('sop:exact-multiple-of-p')
    if u == R + p:
        ev.add('sop:u=2^256+p')
    return ev
