"""Model-side construction of curve points outside the prime-order subgroups (for C04, C05, C08, C09)."""
from functools import lru_cache
from . import rm
from .rm import q, r, F1, F2, H2

assert H2 % 13 == 0 and H2 % 1621 == 0
H_BIG = H2 // (13 * 1621)


def lift_x(which, x, want_even=None):
    """some point with this x on E (which=1) or the twist (which=2), or None"""
    if which == 1:
        y = rm.fq_sqrt((x * x * x + 5) % q)
        if y is None:
            return None
        if want_even is not None and (y % 2 == 0) != want_even:
            y = (-y) % q
        return (x, y)
    y2 = rm.f2add(rm.f2mul(rm.f2mul(x, x), x), F2.b)
    y = rm.f2sqrt(y2)
    if y is None:
        return None
    if want_even is not None and (y[0] % 2 == 0) != want_even:
        y = rm.f2neg(y)
    return (x, y)


def rand_curve_point(rng, which):
    while True:
        x = rng.randrange(q) if which == 1 else (rng.randrange(q), rng.randrange(q))
        P = lift_x(which, x)
        if P is not None:
            if rng.random() < 0.5:
                P = rm.cneg(F1 if which == 1 else F2, P)
            return P


@lru_cache(maxsize=None)
def small_order_points():
    """(S13, S1621): points of exact order 13 and 1621 on the twist, derived deterministically"""
    out = {}
    k = 1
    while len(out) < 2:
        T = lift_x(2, (k, 1))
        k += 1
        if T is None:
            continue
        for m in (13, 1621):
            if m in out:
                continue
            S = rm.cmul(F2, r * (H2 // m), T)
            if S is not None:
                assert rm.cmul(F2, m, S) is None
                out[m] = S
    return out[13], out[1621]


def in_g2(P):
    return rm.oncurve(F2, P) and rm.cmul(F2, r, P) is None
