"""Model-side construction of curve points outside the prime-order subgroups (for C04, C05, C08, C09)."""
from functools import lru_cache
from . import rm
from .rm import q, r, F1, F2, H2

assert H2 % 13 == 0 and H2 % 1621 == 0
H_BIG = H2 // (13 * 1621)


def lift_x(which, x, want_even=None):
    """some point with this x on E (which=1) or the twist (which=2), or None"""
    if which == 1:
        y = rm.fq_sqrt((x * x * x + 5) % q)
        if y is None:
            return None
        if want_even is not None and (y % 2 == 0) != want_even:
            y = (-y) % q
        return (x, y)
    y2 = rm.f2add(rm.f2mul(rm.f2mul(x, x), x), F2.b)
    y = rm.f2sqrt(y2)
    if y is None:
        return None
    if want_even is not None and (y[0] % 2 == 0) != want_even:
        y = rm.f2neg(y)
    return (x, y)


def rand_curve_point(rng, which):
    while True:
        x = rng.randrange(q) if which == 1 else (rng.randrange(q), rng.randrange(q))
        P = lift_x(which, x)
        if P is not None:
            if rng.random() < 0.5:
                P = rm.cneg(F1 if which == 1 else F2, P)
            return P


@lru_cache(maxsize=None)
def small_order_points():
    """(S13, S1621): points of exact order 13 and 1621 on the twist, derived deterministically"""
    out = {}
    k = 1
    while len(out) < 2:
        T = lift_x(2, (k, 1))
        k += 1
        if T is None:
            continue
        for m in (13, 1621):
            if m in out:
                continue
            S = rm.cmul(F2, r * (H2 // m), T)
            if S is not None:
                assert rm.cmul(F2, m, S) is None
                out[m] = S
    return out[13], out[1621]


def in_g2(P):
    return rm.oncurve(F2, P) and rm.cmul(F2, r, P) is None


def directed_g1_point(rng):
    """a point of G1 (any curve point: cofactor 1) one of whose intermediate doubling values - x^2, y^2 or y^4 in Montgomery form -
    sits just below / on / above a value where a small multiple (2x, 3x, 8x) crosses a multiple of q or of 2^256. Returns (P, what) or None."""
    from . import gen
    R = rm.R
    for _ in range(300):
        k = rng.choice([2, 3, 4, 8, 8, 8])
        j = rng.randrange(1, k)
        base = (j * q // k) if rng.random() < 0.7 else (j * R // k)
        delta = rng.getrandbits(rng.choice([1, 8, 64, 128, 180, 187, 190])) * rng.choice([1, -1])
        t = rm.unmont((base + delta) % q, q)
        what = rng.choice(['y4', 'y4', 'y2', 'x2'])
        if what == 'x2':
            x = rm.fq_sqrt(t)
            if x is None:
                continue
            P = lift_x(1, x)
            if P is None:
                continue
            return P, what
        y = rm.fq_sqrt(t)
        if y is None:
            continue
        if what == 'y4':
            y2 = rm.fq_sqrt(y)
            if y2 is None:
                y2 = rm.fq_sqrt((-y) % q)
                if y2 is None:
                    continue
            y = y2
        x = rm.fq_cuberoot((y * y - 5) % q)
        if x is None:
            continue
        P = (x, y)
        assert rm.oncurve(F1, P)
        return P, what
    return None
