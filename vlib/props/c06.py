"""C06  Fq and Fr arithmetic is exact integer arithmetic modulo q and r."""
from .. import gen, rm, paths
from ..mon import check
from ..rm import q, r, h32

ID = 'C06'
EXES = ['release']
RULE = ('each event is one public Fq/Fr call (operator in one of its six forms, neg, inverse, pow, is_zero, is_even, ==) on '
        'operands drawn from limb-pattern classes (canonical and Montgomery-targeted), related pairs (a,a) (a,-a) (a,a+-1) '
        '(a,2^256-a), pairs and squares aimed at Montgomery quotient digits in {0, 1, 2^63, 2^64-1}, pairs and squares solved so that the UNREDUCED accumulator (A*B+K*p)/2^256 equals a boundary value (p, 2^256, 2^256+small, zero/all-ones limbs), pairs (a, c/a) with a boundary product, pairs and squares solved by 2-D lattice reduction so that a chosen event occurs in the MIDDLE of the reduction (high limb overflowing by the pending carry alone in row 1/2; zero quotient digit with a pending carry and an all-ones high limb), fixed boundary values and uniform values; the internal Fq squaring / doubling / tripling / halving through the cfg hook; the answer is compared with Python integer arithmetic mod p. '
        'distinct = distinct (op, form, operands); non-trivial = not both operands in {0, 1}')
ASSUMPTIONS = ['operands enter through the 32-byte from_slice path and leave through to_slice (both judged on their own in C13/C07)']

FORMS = ['vv', 'rv', 'vr', 'rr', 'av', 'ar']
HOOK_CLASSES = ('fq.raw.',)
EVENTS_PER_CASE = 250


def cases(tier, seed):
    n = 3000 if tier == 'quick' else 200000
    return [('fr' if i % 2 else 'fq', EVENTS_PER_CASE) for i in range(n)]


def required(tier):
    req = []
    for f in ('fr', 'fq'):
        for op in ('add', 'sub', 'mul'):
            req += ['%s.%s.%s' % (f, op, fm) for fm in FORMS]
        req += ['%s.neg.v' % f, '%s.neg.r' % f, '%s.inverse' % f, '%s.inverse/zero' % f, '%s.pow' % f, '%s.is_zero' % f, '%s.eq' % f, '%s.result.is_zero' % f, '%s.result.eq' % f,
                '%s.chain' % f]
    req += ['fq.is_even', 'fq.raw.sqr', 'fq.raw.double', 'fq.raw.triple', 'fq.raw.div2']
    return req


def run(ctx, spec):
    f, n = spec
    p = q if f == 'fq' else r
    rng = ctx.rng
    lines, exp = [], []
    ops = ['add', 'sub', 'mul', 'add', 'sub', 'mul', 'neg', 'inverse', 'pow', 'is_zero', 'eq'] + (['is_even', 'raw', 'raw'] if f == 'fq' else [])
    for _ in range(n):
        op = ops[rng.randrange(len(ops))]
        a, b, pc = gen.field_pair(rng, p)
        if op in ('add', 'sub', 'mul'):
            fm = FORMS[rng.randrange(6)]
            v = (a + b) % p if op == 'add' else (a - b) % p if op == 'sub' else a * b % p
            post = v == 0 or rng.random() < 0.08
            lines.append('%s %s.%s.%s %s %s' % ('t' if post else '_', f, op, fm, h32(a), h32(b)))
            exp.append(('%s.%s.%s' % (f, op, fm), 'ok ' + h32(v), (op, fm, a, b), a > 1 or b > 1, pc))
            if post:
                # the zero test and == on the RESULT of an operation (a second representation of zero prints as zero)
                lines.append('_ %s.is_zero $t' % f)
                exp.append(('%s.result.is_zero' % f, 'bool ' + ('true' if v == 0 else 'false'), None, False, pc))
                lines.append('_ %s.eq $t %s' % (f, h32(v)))
                exp.append(('%s.result.eq' % f, 'bool true', None, False, pc))
        elif op == 'neg':
            fm = 'vr'[rng.randrange(2)]
            lines.append('_ %s.neg.%s %s' % (f, fm, h32(a)))
            exp.append(('%s.neg.%s' % (f, fm), 'ok ' + h32((-a) % p), (op, fm, a), a > 1, pc))
        elif op == 'inverse':
            kk = rng.random()
            if kk < 0.05:
                a = 0
            elif kk < 0.45:
                # result-directed: the INVERSE (and its double / half, the last cofactors of the binary Euclid) has boundary limbs,
                # in the canonical or in the Montgomery domain
                y = gen.field_value(rng, p)[0]
                if rng.random() < 0.5:
                    m = gen.limb_value(rng, p)
                    if rng.random() < 0.5:
                        m |= gen.M64 << (64 * rng.randrange(4))        # a limb of all ones
                    y = rm.unmont(m % p, p)
                y = y * rng.choice([1, 2, pow(2, -1, p), 4]) % p
                if y:
                    a = pow(y, -1, p)
                    pc = 'inverse-directed'
            lines.append('_ %s.inverse %s' % (f, h32(a)))
            exp.append(('%s.inverse' % f + ('/zero' if a == 0 else ''), 'none' if a == 0 else 'ok ' + h32(pow(a, -1, p)), (op, a), a > 1, pc))
        elif op == 'pow':
            if rng.random() < 0.3:
                # small exponents on bases aimed at the dedicated squaring routine (the only public route to it in Fr):
                # unreduced square accumulator at a boundary, or Montgomery quotient digits 0 / 2^64-1
                kk2 = rng.random()
                got = gen.unreduced_square(rng, p) if kk2 < 0.45 else (gen.mont_digit_square(rng, p), None) if kk2 < 0.75 else (gen.mid_reduction_square(rng, p), None)
                if got and got[0] is not None:
                    a = got[0]
                    b = rng.choice([2, 2, 3, 4, 5, 65537])
                    pc = 'square-directed'
            lines.append('_ %s.pow %s %s' % (f, h32(a), h32(b)))
            exp.append(('%s.pow' % f, 'ok ' + h32(pow(a, b, p)), (op, a, b), a > 1 and b > 1, pc))
        elif op == 'is_zero':
            if rng.random() < 0.3:
                a = 0
            lines.append('_ %s.is_zero %s' % (f, h32(a)))
            exp.append(('%s.is_zero' % f, 'bool ' + ('true' if a == 0 else 'false'), (op, a), a > 1, pc))
        elif op == 'eq':
            lines.append('_ %s.eq %s %s' % (f, h32(a), h32(b)))
            exp.append(('%s.eq' % f, 'bool ' + ('true' if a == b else 'false'), (op, a, b), a > 1 or b > 1, pc))
            lines.append('_ %s.ne %s %s' % (f, h32(a), h32(b)))
            exp.append(('%s.eq' % f, 'bool ' + ('false' if a == b else 'true'), ('ne', a, b), a > 1 or b > 1, pc))
        elif op == 'is_even':
            lines.append('_ fq.is_even %s' % h32(a))
            exp.append(('fq.is_even', 'bool ' + ('true' if a % 2 == 0 else 'false'), (op, a), a > 1, pc))
        elif op == 'raw':
            # the dedicated squaring / doubling / halving used inside point and tower arithmetic (cfg hook), Fq only
            which = rng.randrange(5)
            if which < 2:
                kk = rng.random()
                if kk < 0.35:
                    a = gen.mont_digit_square(rng, q)
                    pc = 'mont-digits-square'
                elif kk < 0.65:
                    got = gen.unreduced_square(rng, q)
                    if got:
                        a = got[0]
                        pc = 'unreduced-target-square'
                elif kk < 0.85:
                    got = gen.mid_reduction_square(rng, q)
                    if got is not None:
                        a = got
                        pc = 'mid-reduction-square'
                lines.append('_ raw.fq.sqr %s' % h32(a))
                exp.append(('fq.raw.sqr', 'ok ' + h32(a * a % q), ('sqr', a), a > 1, pc))
            elif which == 2:
                lines.append('_ raw.fq.double %s' % h32(a))
                exp.append(('fq.raw.double', 'ok ' + h32(2 * a % q), ('dbl', a), a > 1, pc))
            elif which == 3:
                lines.append('_ raw.fq.triple %s' % h32(a))
                exp.append(('fq.raw.triple', 'ok ' + h32(3 * a % q), ('tpl', a), a > 1, pc))
            else:
                lines.append('_ raw.fq.div2 %s' % h32(a))
                exp.append(('fq.raw.div2', 'ok ' + h32(a * pow(2, -1, q) % q), ('div2', a), a > 1, pc))
    # a chained computation through registers: ((a*b + c) - d)^2 * inverse, every intermediate printed and judged
    a, b, _ = gen.field_pair(rng, p)
    c, d, _ = gen.field_pair(rng, p)
    chain = [('x1', '%s.mul.vv %s %s' % (f, h32(a), h32(b)), a * b % p),
             ('x2', '%s.add.rr $x1 %s' % (f, h32(c)), (a * b + c) % p),
             ('x3', '%s.sub.av $x2 %s' % (f, h32(d)), (a * b + c - d) % p),
             ('x4', '%s.mul.rr $x3 $x3' % f, pow(a * b + c - d, 2, p)),
             ('x5', '%s.neg.r $x4' % f, (-pow(a * b + c - d, 2, p)) % p)]
    for dst, text, v in chain:
        lines.append('%s %s' % (dst, text))
        exp.append(('%s.chain' % f, 'ok ' + h32(v), ('chain', text.split()[0], a, b, c, d), True, 'chain'))
    # consecutive calls in the two fields on operands with IDENTICAL internal (Montgomery) limbs: a memo keyed on the limbs alone
    # would hand the second call the first call's answer
    for _ in range(3):
        m = (gen.limb_value(rng, r) if rng.random() < 0.5 else rng.getrandbits(254)) % r or 1
        pair = [('fr', r), ('fq', q)]
        if rng.random() < 0.5:
            pair.reverse()
        opn = rng.choice(['inverse', 'inverse', 'pow', 'neg'])
        for f2, p2 in pair:
            v = rm.unmont(m, p2)
            if opn == 'inverse':
                lines.append('_ %s.inverse %s' % (f2, h32(v)))
                exp.append(('%s.inverse' % f2, 'ok ' + h32(pow(v, -1, p2)), ('alias-inv', f2, v), True, 'cross-field-alias'))
            elif opn == 'pow':
                lines.append('_ %s.pow %s %s' % (f2, h32(v), h32(3)))
                exp.append(('%s.pow' % f2, 'ok ' + h32(pow(v, 3, p2)), ('alias-pow', f2, v), True, 'cross-field-alias'))
            else:
                lines.append('_ %s.neg.v %s' % (f2, h32(v)))
                exp.append(('%s.neg.v' % f2, 'ok ' + h32((-v) % p2), ('alias-neg', f2, v), True, 'cross-field-alias'))
    ans = ctx.run(lines)
    for line, an, (cls, want, key, nontriv, pc) in zip(lines, ans, exp):
        if check(ctx, an, want, cls.split('/')[0], cls, key, line=line, nontrivial=nontriv):
            ctx.count('pair:' + pc)
            # white-box coverage measurement (informational): which carry paths of the Montgomery reduction did this operand drive?
            if key and key[0] in ('mul', 'sqr') and rng.random() < 0.08:
                A = rm.mont(key[2] if key[0] == 'mul' else key[1], p if key[0] == 'mul' else q)
                B = rm.mont(key[3], p) if key[0] == 'mul' else A
                for e in paths.mul_events(A, B, p if key[0] == 'mul' else q):
                    ctx.count('path:%s:%s' % ('mul' if key[0] == 'mul' else 'square', e))
    ctx.sample(f, {'program_head': lines[:3], 'answers_head': ans[:3]})
