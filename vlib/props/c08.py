"""C08  Point decoders are total, strict and build-profile independent."""
from .. import gen, rm, points
from ..rm import q, r, F1, F2, h32

ID = 'C08'
PERTURB = (40, 300)      # cases re-run in the repeat / parallel perturbation passes (quick, thorough): decoders and square roots are cheap
RULE = ('each event is one byte string given to one of the six G1/G2 decoders or to Fq2::from_slice, run in BOTH the release and the '
        'dev (debug-assertions, overflow-checks) executor; the model accepts iff exact length, valid prefix, every 32-byte coordinate '
        '< q, point on the curve (compressed: right-hand side a square, root chosen by the parity bit) and for G2 [r]P = O by model '
        'arithmetic; on Ok the decoded triple must denote exactly that point and re-encoding it in the same format must give back the '
        'input; any panic is a violation; the two executors must answer identically line by line. Inputs: every length 0..=140, valid '
        'encodings of boundary/random points, every single-bit flip of one valid encoding per case-group and sampled byte '
        'substitutions, all 256 prefix bytes, coordinates q, q+1, 2^256-1, x+q, y+q, all-zero, all-0xFF, x without a point, x solved so that y is purely real / purely imaginary, twist '
        'points outside the subgroup. distinct = distinct (decoder, bytes); non-trivial = the string has the exact length of the format')

DEC = {
    'g1.from_slice': (1, 64, None), 'g1.from_uncompressed': (1, 65, '04'), 'g1.from_compressed': (1, 33, 'c'),
    'g2.from_slice': (2, 128, None), 'g2.from_uncompressed': (2, 129, '04'), 'g2.from_compressed': (2, 65, 'c'),
}
ENC = {'from_slice': 'to_slice', 'from_uncompressed': 'to_uncompressed', 'from_compressed': 'to_compressed'}


def EXES(tier):
    return ['release', 'dev']


def cases(tier, seed):
    out = []
    reps = 2 if tier == 'quick' else 60
    for rep in range(reps):
        for L in range(0, 141):
            out.append(('len', L))
        for d in DEC:
            for j in range(4):
                out.append(('valid', d, j))
            out.append(('prefix', d, 0))
            out.append(('coord', d, 0))
            nflip = 4 if tier == 'quick' else 8
            for j in range(nflip):
                out.append(('flip', d, j, nflip))
            out.append(('subst', d, 0))
        for j in range(4):
            out.append(('fq2', j))
        for j in range(3):
            out.append(('realrhs', j))
        for j in range(2):
            out.append(('outside', j))
    return out


def required(tier):
    req = []
    for d in DEC:
        req += [d + '/accept', d + '/reject-length', d + '/reject-coord>=q', d + '/reject-notoncurve', d + '/roundtrip']
        if DEC[d][2]:
            req.append(d + '/reject-prefix')
    req += ['g2.from_slice/reject-subgroup', 'g2.from_compressed/reject-subgroup', 'fq2.from_slice/accept', 'fq2.from_slice/reject-coord>=q',
            'fq2.from_slice/reject-length', 'profile-agreement', 'g2/y-imaginary', 'g2/y-real']
    return req


def oracle(dec, b):
    """(accept?, point or None, reason)"""
    which, L, pre = DEC[dec]
    F = F1 if which == 1 else F2
    w = 32 * which
    if len(b) != L:
        return False, None, 'length'
    body = b
    parity = None
    if pre == '04':
        if b[0] != 4:
            return False, None, 'prefix'
        body = b[1:]
    elif pre == 'c':
        if b[0] not in (2, 3):
            return False, None, 'prefix'
        parity = b[0] & 1
        body = b[1:]
    coords = [int.from_bytes(body[i:i + 32], 'big') for i in range(0, len(body), 32)]
    if any(c >= q for c in coords):
        return False, None, 'coord>=q'
    if which == 1:
        x = coords[0]
        if pre == 'c':
            P = points.lift_x(1, x, parity == 0)
        else:
            P = (x, coords[1])
    else:
        x = (coords[1], coords[0])
        if pre == 'c':
            P = points.lift_x(2, x, parity == 0)
        else:
            P = (x, (coords[3], coords[2]))
    if P is None or not rm.oncurve(F, P):
        return False, None, 'notoncurve'
    if which == 2 and rm.cmul(F2, r, P) is not None:
        return False, None, 'subgroup'
    return True, P, 'accept'


def enc_point(which, P, pre):
    F = F1 if which == 1 else F2
    if pre == 'c':
        y0 = P[1] if which == 1 else P[1][0]
        return bytes.fromhex(('02' if y0 % 2 == 0 else '03') + F.enc(P[0]))
    return bytes.fromhex((pre or '') + F.enc(P[0]) + F.enc(P[1]))


def run(ctx, spec):
    rng = ctx.rng
    kind = spec[0]
    items = []   # (decoder, bytes)

    def some_point(which):
        k, _c = gen.scalar_r(rng)
        return rm.gmul(which, k or 1)

    if kind == 'len':
        L = spec[1]
        for d in DEC:
            which, LL, pre = DEC[d]
            b = rng.randbytes(L)
            items.append((d, b))
            # a valid encoding truncated / extended to this length
            v = enc_point(which, some_point(which), pre)
            items.append((d, (v + rng.randbytes(max(0, L - len(v))))[:L]))
            if L > 0:
                items.append((d, bytes([rng.choice([2, 3, 4])]) + rng.randbytes(L - 1)))
                items.append((d, bytes(L)))
                items.append((d, b'\xff' * L))
        items.append(('fq2.from_slice', rng.randbytes(L)))
        items.append(('fq2.from_slice', bytes(L)))
    elif kind == 'valid':
        d = spec[1]
        which, LL, pre = DEC[d]
        for _ in range(6):
            P = some_point(which)
            if rng.random() < 0.5:
                P = rm.cneg(F1 if which == 1 else F2, P)
            items.append((d, enc_point(which, P, pre)))
    elif kind == 'prefix':
        d = spec[1]
        which, LL, pre = DEC[d]
        P = some_point(which)
        v = enc_point(which, P, pre)
        if pre:
            for pb in range(256):
                items.append((d, bytes([pb]) + v[1:]))
        else:
            for pb in rng.sample(range(256), 24):
                items.append((d, bytes([pb]) + v[1:]))
    elif kind == 'coord':
        d = spec[1]
        which, LL, pre = DEC[d]
        off = 1 if pre else 0
        ncoord = (LL - off) // 32
        for _ in range(6):
            P = some_point(which)
            v = bytearray(enc_point(which, P, pre))
            for ci in range(ncoord):
                c = int.from_bytes(v[off + 32 * ci:off + 32 * ci + 32], 'big')
                for nv in (c + q, q, q + 1, (1 << 256) - 1, q - 1, 0, q + c % 1000):
                    if nv < (1 << 256):
                        w = bytearray(v)
                        w[off + 32 * ci:off + 32 * ci + 32] = nv.to_bytes(32, 'big')
                        items.append((d, bytes(w)))
        # small x values: about half of them carry a point
        for x in rng.sample(range(0, 64), 8):
            if pre == 'c':
                body = (x.to_bytes(32, 'big') if which == 1 else bytes(32) + x.to_bytes(32, 'big'))
                items.append((d, bytes([rng.choice([2, 3])]) + body))
    elif kind == 'flip':
        d, j, nflip = spec[1], spec[2], spec[3]
        which, LL, pre = DEC[d]
        r0 = __import__('random').Random('%s/flip/%s' % (ctx.seed, d))
        k = r0.randrange(1, r)
        v = enc_point(which, rm.gmul(which, k), pre)
        nbits = 8 * LL
        for bit in range(j, nbits, nflip):
            if which == 2 and pre == 'c' and bit % 2 and ctx.tier == 'quick':
                continue
            w = bytearray(v)
            w[bit // 8] ^= 1 << (bit % 8)
            items.append((d, bytes(w)))
    elif kind == 'subst':
        d = spec[1]
        which, LL, pre = DEC[d]
        v = enc_point(which, some_point(which), pre)
        for _ in range(40):
            w = bytearray(v)
            w[rng.randrange(LL)] = rng.randrange(256)
            items.append((d, bytes(w)))
    elif kind == 'fq2':
        for _ in range(40):
            x = gen.fq2_value(rng)[0]
            b = bytearray(bytes.fromhex(h32(x[1]) + h32(x[0])))
            k = rng.randrange(6)
            if k == 0:
                b[:32] = rng.choice([q, q + 1, (1 << 256) - 1, q + x[1] % 1000]).to_bytes(32, 'big')
            elif k == 1:
                b[32:] = rng.choice([q, q + 1, (1 << 256) - 1]).to_bytes(32, 'big')
            elif k == 2:
                b = bytearray(rng.randbytes(64))
            items.append(('fq2.from_slice', bytes(b)))
    elif kind == 'realrhs':
        # x in Fq2 solved so that x^3 + 5u lies in Fq: y is then purely real or purely imaginary (sign fix-up cannot change the
        # parity of a zero real part); such points are on the twist but (almost surely) outside the subgroup
        for _ in range(6):
            while True:
                b = rng.randrange(1, q)
                a2 = (2 * b * b * b - 5) * pow(3 * b, -1, q) % q
                a = rm.fq_sqrt(a2)
                if a is not None:
                    break
            x = (a if rng.random() < 0.5 else (-a) % q, b)
            x3 = rm.f2mul(rm.f2mul(x, x), x)
            assert (x3[1] + 5) % q == 0
            for pre in (b'\x02', b'\x03'):
                items.append(('g2.from_compressed', pre + bytes.fromhex(F2.enc(x))))
            P = points.lift_x(2, x)
            if P is not None:
                ctx.classes['g2/y-' + ('imaginary' if P[1][0] == 0 else 'real')] += 1
                for d in ('g2.from_slice', 'g2.from_uncompressed'):
                    items.append((d, enc_point(2, P, DEC[d][2])))
        # G1: x with x^3 + 5 = 0 would give y = 0; -5 is not a cube here, so the nearest analogue is small y: skip

        S13, S1621 = points.small_order_points()
        T = points.rand_curve_point(rng, 2)
        sub = rm.gmul(2, rng.randrange(1, r))
        for P in (T, rm.cmul(F2, rng.randrange(1, 13), S13), rm.cadd(F2, sub, S1621), rm.cmul(F2, rng.randrange(1, 1621), S1621)):
            for d in ('g2.from_slice', 'g2.from_uncompressed', 'g2.from_compressed'):
                items.append((d, enc_point(2, P, DEC[d][2])))
        for _ in range(3):
            Pq = points.rand_curve_point(rng, 1)
            for d in ('g1.from_slice', 'g1.from_uncompressed', 'g1.from_compressed'):
                items.append((d, enc_point(1, Pq, DEC[d][2])))

    pr = gen.Prog()
    meta = {}
    for d, b in items:
        hb = b.hex() or '-'
        if d == 'fq2.from_slice':
            reg, i = pr.let(d, hb)
            ok = len(b) == 64 and int.from_bytes(b[:32], 'big') < q and int.from_bytes(b[32:], 'big') < q
            meta[i] = ('fq2', d, b, ok)
            continue
        reg, i = pr.let(d, hb)
        acc, P, why = oracle(d, b)
        meta[i] = ('dec', d, b, acc, P, why)
        if acc:
            grp, fn = d.split('.')
            j = pr.emit('_', '%s.%s' % (grp, ENC[fn]), reg)
            meta[j] = ('re', d, b)
    ans = ctx.run(pr.lines)
    ans_dev = ctx.run(pr.lines, exe='dev')
    for i, (an, ad) in enumerate(zip(ans, ans_dev)):
        line = pr.lines[i]
        m = meta[i]
        d, b = m[1], m[2]
        if an != ad:
            ctx.fail(d + '|profile', '%s answers differently in the two build profiles: release %r, dev %r (input %s)' % (d, an[:120], ad[:120], b.hex()[:140]),
                     observed=an, observed_dev=ad, line=line)
            continue
        ctx.ok('profile-agreement', None, False)
        head, _, payload = an.partition(' ')
        if head not in ('ok', 'err', 'none', 'bytes'):
            ctx.fail(d + '|total', '%s did not return normally: %r (input %s)' % (d, an[:160], b.hex()[:140]), observed=an, line=line)
            continue
        if m[0] == 'fq2':
            ok = m[3]
            good = (head == 'ok' and payload == b.hex()) if ok else head == 'none'
            cls = 'fq2.from_slice/' + ('accept' if ok else 'reject-length' if len(b) != 64 else 'reject-coord>=q')
            if good:
                ctx.ok(cls, (d, b), len(b) == 64)
            else:
                ctx.fail(d, '%s: observed %r for %s' % (cls, an[:140], b.hex()), observed=an, line=line)
        elif m[0] == 'dec':
            acc, P, why = m[3], m[4], m[5]
            which = DEC[d][0]
            F = F1 if which == 1 else F2
            if acc:
                good = False
                if head == 'ok':
                    try:
                        good = rm.jac_affine(F, rm.jac_parse(F, payload)) == P
                    except Exception:
                        good = False
                if good:
                    ctx.ok(d + '/accept', (d, b))
                else:
                    ctx.fail(d, '%s must accept %s (a valid encoding) and return that point; observed %r' % (d, b.hex()[:140], an[:120]), observed=an, line=line)
            else:
                if head == 'err':
                    ctx.ok(d + '/reject-' + why, (d, b), len(b) == DEC[d][1])
                else:
                    ctx.fail(d + '|' + why, '%s accepted an input the format forbids (%s): %s -> %r' % (d, why, b.hex()[:140], an[:100]),
                             observed=an, line=line, reason=why)
        else:
            if an == 'bytes ' + b.hex():
                ctx.ok(d + '/roundtrip', (d, 're', b))
            else:
                ctx.fail(d + '|roundtrip', 're-encoding the decoded point gives %r, not the input %s' % (an[:140], b.hex()[:140]), observed=an, line=line)
    ctx.sample(kind, {'program': [l[:140] for l in pr.lines[:3]], 'release': [a[:100] for a in ans[:3]], 'dev': [a[:100] for a in ans_dev[:3]]})


def stages(tier, seed):
    """thorough: the decoder corpus under AddressSanitizer, and a slice of it (G1 and length cases, cheap in an interpreter) under Miri"""
    if tier != 'thorough':
        return []
    from .. import stages as st

    def asan(exes):
        picks = [('c08', c) for c in cases('quick', seed)]
        return st.differential(ID, 'asan', picks, tier, seed, exes, 'asan-decoders')

    def miri(exes):
        specs = [('len', L) for L in (0, 1, 32, 33, 63, 64, 66)] + [('prefix', 'g1.from_slice', 0)]
        progs = st.capture_programs('c08', specs, ID, 'quick', seed, exes, limit_lines=14)
        return st.miri_programs('miri-decoders', progs, exes)
    asan.__name__ = 'asan-decoders'
    miri.__name__ = 'miri-decoders'
    return [asan, miri]
