"""C13  Byte, decimal and hash conversions to field elements compute n mod p."""
from .. import gen, rm
from ..mon import check
from ..rm import q, r, h32

ID = 'C13'
EXES = ['release']
RULE = ('each event is one conversion call: Fr/Fq::from_slice and TryFrom<&[u8]> for every length 0..=70, interpret, from_str, '
        'Fr::from_hash, to_slice / Into<[u8;32]>, Fq::to_big_endian for every buffer length 0..=70, from_slice(to_slice(x)) == x, '
        'Fr::set_bit for bit 0..=300; judged against int.from_bytes / int(str) / bit operations in Python reduced mod p '
        '(mod (r-1), plus 1, for from_hash). Not judged (recorded only): the empty string, strings whose non-ASCII characters '
        'are Unicode decimal digits, set_bit with index >= 256, which Err variant is returned. '
        'distinct = distinct (op, input); non-trivial = input is not all-zero and has a length the function accepts')
MAXLEN = 70


def bytes_for(rng, L, mods):
    """a length-L byte string from a boundary class"""
    if L == 0:
        return b'', 'empty'
    top = 1 << (8 * L)
    k = rng.randrange(12)
    if k == 0:
        return bytes(L), 'zeros'
    if k == 1:
        return b'\xff' * L, 'ones'
    if k in (2, 3, 4):
        m = mods[rng.randrange(len(mods))]
        # largest multiple of m below 2^(8L), and its neighbours
        base = ((top - 1) // m) * m
        if k == 3:
            base = m * rng.randrange(1, max(2, min(top // m, 1 << 64))) if top > m else base
        v = base + rng.choice([-2, -1, 0, 1, 2])
        if 0 <= v < top:
            return v.to_bytes(L, 'big'), 'multiple+-'
    if k == 5:
        v = rng.choice([q - 1, q, q + 1, r - 1, r, r + 1, r - 2, (1 << 256) - 1, 1 << 255, (1 << 256) - q, (1 << 256) - r])
        if v < top:
            return v.to_bytes(L, 'big'), 'boundary'
    if k == 6 and L >= 32:
        v = gen.limb_value(rng, q)
        hi = rng.getrandbits(8 * (L - 32)) if L > 32 and rng.random() < 0.5 else 0
        return ((hi << 256) | v).to_bytes(L, 'big'), 'limbs'
    if k == 9 and L > 32:
        # the high part (bytes above the low 32) and the low 32 bytes each taken from the boundary values: e.g. p || X, (r-1) || 0
        bvals = [m_ for m_ in mods] + [mods[0] - 1, mods[0] + 1, (1 << 256) - 1, (1 << 256) - mods[0], 1, 0, 1 << 255]
        hi = rng.choice(bvals) % (1 << (8 * (L - 32)))
        lo = rng.choice(bvals + [rng.getrandbits(256), rng.getrandbits(64)]) % (1 << 256)
        return ((hi << 256) | lo).to_bytes(L, 'big'), 'boundary-halves'
    if k == 7:
        return bytes([0] * (L - 1) + [rng.randrange(256)]), 'small'
    if k == 8:
        # powers of two (in particular at limb boundaries 2^64k) and their neighbours, sums of two powers
        e = rng.choice([64 * rng.randrange(0, (8 * L + 63) // 64), rng.randrange(8 * L)])
        v = (1 << e) + rng.choice([-1, 0, 0, 1, rng.randrange(1 << 16), 1 << rng.randrange(8 * L)])
        if 0 <= v < top:
            return v.to_bytes(L, 'big'), 'pow2'
    return rng.randbytes(L), 'random'


STRINGS_BAD = ['-1', '+1', ' 1', '1 ', '1_0', '0x10', '12a', 'a', '1.0', '1e3', '١٢x', '１2 ', '\t5', '5\n', '9' * 40 + 'z', '--', '1,000', '²']
STRINGS_NONASCII_DIGITS = ['１', '٣', '１２３', '12٣', '৪2']


def cases(tier, seed):
    reps = 30 if tier == 'quick' else 3000
    out = []
    for rep in range(reps):
        for L in range(0, MAXLEN + 1):
            out.append(('bytes', L, 14 if tier == 'quick' else 20))
        for blk in range(8):
            out.append(('str', blk, 24))
        for blk in range(6):
            out.append(('out', blk, 30))
        for blk in range(10):
            out.append(('setbit', blk, 31))
    return out


def required(tier):
    req = []
    for f in ('fr', 'fq'):
        req += ['%s.from_slice/L%d' % (f, L) for L in (0, 1, 31, 32, 33, 63, 64, 65, 70)]
        req += ['%s.try_from' % f, '%s.interpret' % f, '%s.from_str/digits' % f, '%s.from_str/bad' % f, '%s.to_slice' % f,
                '%s.roundtrip' % f, '%s.into_bytes' % f]
    req += ['fr.from_hash/L0', 'fr.from_hash/L40', 'fr.from_hash/L64', 'fr.from_hash/L65', 'fr.from_hash/h=1', 'fr.from_hash/h=r-1',
            'fq.to_big_endian/32', 'fq.to_big_endian/other', 'fr.set_bit/set', 'fr.set_bit/clear', 'fr.set_bit/reduces']
    return req


def run(ctx, spec):
    kind = spec[0]
    rng = ctx.rng
    lines, exp = [], []

    def add(line, cls, want, key, nontriv=True, judge=True):
        lines.append(line)
        exp.append((cls, want, key, nontriv, judge))

    if kind == 'bytes':
        _, L, n = spec
        for _ in range(n):
            for f, p in (('fr', r), ('fq', q)):
                b, bc = bytes_for(rng, L, [p, r - 1] if f == 'fr' else [p])
                v = int.from_bytes(b, 'big')
                hb = b.hex() if L else '-'
                okL = 1 <= L <= 64
                want = 'ok ' + h32(v % p) if okL else 'none'
                add('_ %s.from_slice %s' % (f, hb), '%s.from_slice/L%d' % (f, L), want, ('fs', f, b), okL and v != 0)
                if rng.random() < 0.3:
                    add('_ %s.try_from %s' % (f, hb), '%s.try_from' % f, want if okL else 'err', ('tf', f, b), okL and v != 0)
                if L == 64:
                    add('_ %s.interpret %s' % (f, hb), '%s.interpret' % f, 'ok ' + h32(v % p), ('ip', f, b), v != 0)
            b, bc = bytes_for(rng, L, [r - 1, r])
            v = int.from_bytes(b, 'big')
            hb = b.hex() if L else '-'
            want = 'ok ' + h32(v % (r - 1) + 1) if L <= 64 else 'none'
            add('_ fr.from_hash %s' % hb, 'fr.from_hash/L%d' % L, want, ('fh', b), L <= 64 and v != 0)
        if L >= 32 and L <= 64:
            # h = 1 and h = r-1: inputs congruent to 0 and r-2 modulo r-1
            for tgt, name in ((0, 'h=1'), (r - 2, 'h=r-1')):
                mult = rng.randrange(1, max(2, ((1 << (8 * L)) - r) // (r - 1))) if L > 32 else 1
                v = mult * (r - 1) + tgt
                if v < (1 << (8 * L)):
                    add('_ fr.from_hash %s' % v.to_bytes(L, 'big').hex(), 'fr.from_hash/' + name, 'ok ' + h32(tgt + 1), ('fh', v, L))
    elif kind == 'str':
        for _ in range(spec[2]):
            f, p = (('fr', r), ('fq', q))[rng.randrange(2)]
            k = rng.randrange(10)
            if k < 6:
                nd = rng.choice([1, 2, 3, 10, 38, 39, 76, 77, 78, 79, 80, 100, 155, 160, rng.randrange(1, 161)])
                s = ''.join(rng.choice('0123456789') for _ in range(nd))
                if rng.random() < 0.3:
                    s = ('0' * rng.randrange(1, 6) + s)[:160]
                if rng.random() < 0.2:
                    s = str(rng.choice([p - 1, p, p + 1, 2 * p, (1 << 256) - 1, 1 << 256, p * p, 10 ** 77, 10 ** 78]))
                elif rng.random() < 0.2:
                    # a decimal prefix that is exactly (a small multiple of) the modulus or 2^256, then a long tail: an accumulator
                    # that is not fully reduced after the prefix shows up only many digits later
                    pre = str(rng.choice([p, p, 2 * p, 3 * p, p - 1, p + 1, 1 << 256, (1 << 256) - 1, r if f == 'fq' else q]))
                    tail = ''.join(rng.choice('0123456789') if rng.random() < 0.7 else rng.choice('79') for _ in range(rng.choice([1, 10, 40, 76, 77, 78, 80, 82])))
                    s = (pre + tail)[:160]
                add('_ %s.from_str %s' % (f, s.encode().hex()), '%s.from_str/digits' % f, 'ok ' + h32(int(s) % p), ('str', f, s), int(s) != 0)
            elif k < 9:
                s = rng.choice(STRINGS_BAD)
                if rng.random() < 0.5:
                    d = ''.join(rng.choice('0123456789') for _ in range(rng.randrange(1, 60)))
                    pos = rng.randrange(len(d) + 1)
                    bad = rng.choice(['a', ' ', '-', '+', '.', 'x', '/', ':', '\x00', 'é', '₁'])
                    if rng.random() < 0.5:
                        # any non-ASCII, non-digit character; half of them chosen so that the low byte of the code point is '0'..'9'
                        while True:
                            cp = rng.randrange(0x80, 0x2FFFF)
                            if rng.random() < 0.5:
                                cp = (cp & ~0xFF) | rng.randrange(0x30, 0x3A)
                            ch = chr(cp)
                            if cp >= 0x80 and not (0xD800 <= cp <= 0xDFFF) and not ch.isdigit() and not ch.isdecimal() and not ch.isnumeric():
                                bad = ch
                                break
                    s = d[:pos] + bad + d[pos:]
                add('_ %s.from_str %s' % (f, s.encode().hex()), '%s.from_str/bad' % f, 'err', ('str', f, s))
            else:
                s = rng.choice(STRINGS_NONASCII_DIGITS + [''])
                add('_ %s.from_str %s' % (f, s.encode().hex() or '-'), '%s.from_str/unjudged' % f, None, ('str', f, s), False, judge=False)
    elif kind == 'out':
        for _ in range(spec[2]):
            f, p = (('fr', r), ('fq', q))[rng.randrange(2)]
            a, _c = gen.field_value(rng, p)
            add('x %s.lit %s' % (f, h32(a)), '%s.lit' % f, 'ok ' + h32(a), None, False)
            add('_ %s.to_slice $x' % f, '%s.to_slice' % f, 'bytes ' + h32(a), ('ts', f, a), a != 0)
            add('_ %s.rt_eq $x' % f, '%s.roundtrip' % f, 'bool true', ('rt', f, a), a != 0)
            add('_ %s.into_bytes.v $x' % f, '%s.into_bytes' % f, 'bytes ' + h32(a), ('ib', f, a), a != 0)
            if f == 'fr':
                add('_ fr.into_bytes.r $x', 'fr.into_bytes', 'bytes ' + h32(a), ('ibr', a), a != 0)
            else:
                n = rng.choice([32, 32, 0, 1, 31, 33, 64, rng.randrange(0, MAXLEN + 1)])
                add('_ fq.to_big_endian $x %d' % n, 'fq.to_big_endian/' + ('32' if n == 32 else 'other'),
                    'bytes ' + h32(a) if n == 32 else 'err', ('tbe', a, n), a != 0)
    elif kind == 'setbit':
        for _ in range(spec[2]):
            a, _c = gen.field_value(rng, r)
            if rng.random() < 0.3:
                a = rng.choice([0, 1, r - 1, (1 << 255) % r, r - (1 << 200), (1 << 255) - 1])
            i = rng.choice([0, 1, 63, 64, 127, 128, 191, 192, 254, 255, rng.randrange(256), rng.randrange(256), rng.randrange(256, 301)])
            v = rng.randrange(2)
            if i < 256:
                nv = (a | (1 << i)) if v else (a & ~(1 << i))
                cls = 'fr.set_bit/' + ('reduces' if nv >= r else 'set' if v else 'clear')
                add('_ fr.set_bit %s %d %d' % (h32(a), i, v), cls, 'ok ' + h32(nv % r), ('sb', a, i, v), True)
            else:
                add('_ fr.set_bit %s %d %d' % (h32(a), i, v), 'fr.set_bit/unjudged', None, ('sb', a, i, v), False, judge=False)
        # writing the bits of r, r+1 ... into zero one at a time: ends at a value that must have been reduced
        tgt = r + rng.randrange(0, 3)
        lines.append('z fr.zero')
        exp.append(('fr.zero', 'ok ' + h32(0), None, False, True))
        cur = 0
        for i in range(255, -1, -1):
            if (tgt >> i) & 1:
                raw = cur | (1 << i)
                cur = raw % r
                add('z fr.set_bit $z %d 1' % i, 'fr.set_bit/' + ('reduces' if raw >= r else 'set'), 'ok ' + h32(cur), ('sbr', tgt, i), True)
        add('_ fr.is_zero $z', 'fr.set_bit/reduces', 'bool ' + str(cur == 0).lower(), ('sbz', tgt), True)
        add('_ fr.rt_eq $z', 'fr.roundtrip', 'bool true', ('sbrt', tgt), True)
    ans = ctx.run(lines)
    for line, an, (cls, want, key, nontriv, judge) in zip(lines, ans, exp):
        if not judge:
            ctx.count('unjudged:' + cls)
            k = an.split(' ', 1)[0]
            if k in ('panic', 'hang', 'died'):
                ctx.fail(cls.split('/')[0], '%s: %r for %s' % (cls, an[:160], line[:200]), observed=an, line=line)
            continue
        if want == 'err':
            if an.startswith('err'):
                ctx.ok(cls, key, nontriv)
            else:
                ctx.fail(cls.split('/')[0], '%s: expected an error, observed %r for %s' % (cls, an[:120], line[:300]), observed=an, line=line)
        else:
            check(ctx, an, want, cls.split('/')[0], cls, key, line=line, nontrivial=nontriv)
    if lines:
        ctx.sample(kind, {'lines': [l[:200] for l in lines[:3]], 'answers': ans[:3]})
