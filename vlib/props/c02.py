"""C02  Pairing values equal the SM9 R-ate pairing, byte for byte."""
from .. import gen, rm, kat
from ..rm import q, r, F1, F2, h32

ID = 'C02'
PERTURB = (8, 80)      # cases re-run in the repeat / parallel perturbation passes (quick, thorough)
EXES = ['release']
RULE = ('each case takes P = [a]P1, Q = [b]P2 (a, b from boundary and random scalar classes of Z_r*), each in one of the '
        'representations (z=1, library Jacobian, lambda-rescaled), and compares the 384 bytes returned by pairing(), fast_pairing() '
        'and G2Prepared::from(Q).pairing(&P) with the serialisation of the textbook R-ate pairing computed by the model on the affine '
        'points (Miller function on E(Fq12), two Frobenius line steps, one generic power to (q^12-1)/r, standard coefficient order). '
        'The three published vectors present in the repository are required cases. Thorough adds points selected for extreme limbs in '
        'their affine coordinates. distinct = distinct (entry point, P triple, Q triple); non-trivial = every event (a, b != 0)')
ASSUMPTIONS = ['the textbook model itself reproduces the three published vectors on every limb (checked at the start of each run)']
ENTRY = ['pair.pairing', 'pair.fast', 'pair.prepared']


def cases(tier, seed):
    n = 320 if tier == 'quick' else 15000
    out = [('kat', 0)]
    for i in range(n):
        out.append(('rand', i))
    if tier == 'thorough':
        for i in range(32):
            out.append(('limbscan', i))
    return out


def required(tier):
    req = ['kat/lib_pairing_test', 'kat/test_pairing', 'kat/readme-power']
    for e in ENTRY:
        for rp in gen.REPS:
            req.append('%s/P-%s' % (e, rp))
            req.append('%s/Q-%s' % (e, rp))
    return req


def extremeness(P, which):
    vals = P if which == 1 else (P[0][0], P[0][1], P[1][0], P[1][1])
    best = 0
    for v in vals:
        for i in range(4):
            l = (v >> (64 * i)) & gen.M64
            best = max(best, 64 - l.bit_length(), 64 - (l ^ gen.M64).bit_length())
    return best


def run(ctx, spec):
    kind = spec[0]
    rng = ctx.rng
    pr = gen.Prog()
    exp = {}
    if kind == 'kat':
        Q = pr.let('g2.mul', pr.let('g2.one')[0], h32(kat.KS))[0]
        P = pr.let('g1.one')[0]
        want = rm.ser12(rm.pairing(rm.P1, rm.g2(kat.KS))).hex()
        assert all(int(want[64 * n:64 * n + 64], 16) == kat.V1_LIMBS[e] for n, e in enumerate(rm.ORDER))
        for e in ENTRY:
            reg, i = pr.let(e, P, Q)
            exp[i] = ('kat/lib_pairing_test', want, e)
            reg2, i = pr.let('gt.pow', reg, h32(kat.RR))
            exp[i] = ('kat/readme-power', kat.V3_GPOWR.lower(), e)
        P2 = pr.let('g1.lit', rm.jac_lit(F1, kat.V2_P))[0]
        Q2 = pr.let('g2.lit', rm.jac_lit(F2, kat.V2_Q))[0]
        w2 = [0] * 12
        for e, v in kat.V2_LIMBS.items():
            w2[e] = v
        for e in ENTRY:
            reg, i = pr.let(e, P2, Q2)
            exp[i] = ('kat/test_pairing', rm.ser12(w2).hex(), e)
    else:
        if kind == 'rand':
            a, ca = gen.scalar_r(rng)
            b, cb = gen.scalar_r(rng)
            a = a or 1
            b = b or 1
            ctx.count('scalar:' + ca)
        else:
            # scan a block of consecutive multiples for affine coordinates with extreme limbs
            start = rng.randrange(1, r - 5000)
            best = []
            for which in (1, 2):
                F = F1 if which == 1 else F2
                G = rm.gmul(which, 1)
                P = rm.gmul(which, start)
                bk, bs = start, -1
                for j in range(400 if which == 2 else 1200):
                    s = extremeness(P, which)
                    if s > bs:
                        bk, bs = start + j, s
                    P = rm.cadd(F, P, G)
                best.append(bk)
                ctx.count('limbscan:best-run-bits>=%d' % (bs // 4 * 4))
            a, b = best
        rp, rq = rng.choice(gen.REPS), rng.choice(gen.REPS)
        P = gen.point(pr, rng, 1, a, rp)
        Q = gen.point(pr, rng, 2, b, rq)
        want = rm.ser12(rm.pairing(rm.gmul(1, a), rm.gmul(2, b))).hex()
        for e in ENTRY:
            reg, i = pr.let(e, P, Q)
            exp[i] = ('%s/P-%s' % (e, rp), want, e)
            ctx.classes['%s/Q-%s' % (e, rq)] += 1
    ans = ctx.run(pr.lines)
    regvals = {}
    for i, an in enumerate(ans):
        if an.startswith('ok '):
            regvals['$' + pr.lines[i].split(' ', 1)[0]] = an[3:]
        if i not in exp:
            if not an.startswith('ok '):
                ctx.fail('setup', 'operand construction answered %r for %s' % (an[:120], pr.lines[i][:160]), observed=an, line=pr.lines[i])
                return
            continue
        cls, want, e = exp[i]
        toks = pr.lines[i].split()
        if an == 'ok ' + want:
            ctx.ok(cls, (e,) + tuple(regvals.get(t, t) for t in toks[2:]))
        else:
            ctx.fail(e, '%s [%s]: the value differs from the textbook R-ate pairing: observed %r…, model %r… (operands %s)' % (
                e, cls, an[:70], want[:64], [regvals.get(t, t)[:40] for t in toks[2:]]), observed=an, expected=want, line=pr.lines[i])
    ctx.sample(kind, {'program': [l[:120] for l in pr.lines[-3:]], 'answers': [a[:100] for a in ans[-3:]]})
