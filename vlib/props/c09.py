"""C09  Only points of the curve and of the order-r subgroup pass validated construction."""
from .. import gen, rm, points
from ..rm import q, r, F1, F2, H2, h32

ID = 'C09'
EXES = ['release']
RULE = ('each event presents one (x, y) to AffineG1::new, AffineG2::new or to one of the three G2 decoders; the points are built by '
        'the model with arbitrary-size scalars: subgroup points, random twist points (order r*h), cofactor-cleared points, points of '
        'order 13, 1621, 13*1621 and of the large cofactor factor, subgroup point + small-order point, near misses (y+1, x+1, a point '
        'of y^2 = x^3 + 5 fed to G2 and vice versa, wrong curve constant); acceptance must equal the model predicate '
        '"on the curve and [r]P = O" (G1: on the curve). distinct = distinct (constructor, x, y); non-trivial = every event')


def cases(tier, seed):
    n = 300 if tier == 'quick' else 12000
    return [('g2', i) for i in range(n)] + [('g1', i) for i in range(n // 3 + 1)]


def required(tier):
    return ['g2/subgroup', 'g2/twist-random', 'g2/cofactor-cleared', 'g2/order-13', 'g2/order-1621', 'g2/order-13*1621', 'g2/order-big',
            'g2/subgroup+small', 'g2/near-miss', 'g2/wrong-curve', 'g2/wrong-curve-one-component', 'g2.aff.new/accept', 'g2.aff.new/reject', 'g2.from_slice/accept',
            'g2.from_slice/reject', 'g2.from_uncompressed/reject', 'g2.from_compressed/reject', 'g2.from_compressed/accept',
            'g1/valid', 'g1/near-miss', 'g1/random', 'g1.aff.new/accept', 'g1.aff.new/reject', 'curve-constant']


def run(ctx, spec):
    grp, _i = spec
    rng = ctx.rng
    lines, exp = [], []
    if grp == 'g2':
        S13, S1621 = points.small_order_points()
        T = points.rand_curve_point(rng, 2)
        k = rng.randrange(1, r)
        sub = rm.gmul(2, k)
        pts = [('subgroup', sub), ('twist-random', T)]
        which = rng.randrange(4)
        if which == 0:
            pts.append(('cofactor-cleared', rm.cmul(F2, H2, T)))
        elif which == 1:
            pts.append(('order-big', rm.cmul(F2, r * 13 * 1621, T)))
        a, b = rng.randrange(1, 13), rng.randrange(1, 1621)
        pts.append(('order-13', rm.cmul(F2, a, S13)))
        pts.append(('order-1621', rm.cmul(F2, b, S1621)))
        pts.append(('order-13*1621', rm.cadd(F2, rm.cmul(F2, a, S13), rm.cmul(F2, b, S1621))))
        pts.append(('subgroup+small', rm.cadd(F2, sub, rm.cmul(F2, a, S13) if rng.random() < 0.5 else rm.cmul(F2, b, S1621))))
        x, y = sub
        pts.append(('near-miss', (x, rm.f2add(y, (1, 0)))))
        pts.append(('near-miss', (rm.f2add(x, (0, 1)), y)))
        pts.append(('near-miss', (x, (y[1], y[0]))))
        # a point of the untwisted curve y^2 = x^3 + 5 with coordinates in Fq, presented to G2; and of y^2 = x^3 + 5 over Fq2
        P1 = rm.gmul(1, k)
        pts.append(('wrong-curve', ((P1[0], 0), (P1[1], 0))))
        xx = (rng.randrange(q), rng.randrange(q))
        yy = rm.f2sqrt(rm.f2add(rm.f2mul(rm.f2mul(xx, xx), xx), (5, 0)))
        if yy is not None:
            pts.append(('wrong-curve', (xx, yy)))
        # order-r points of an ISOMORPHIC curve: (s^2 x, s^3 y) lies on y^2 = x^3 + s^6 * 5u and still has order r, so only the
        # curve equation can reject it (the a = 0 group formulas never use the constant)
        for _ in range(2):
            sc = gen.fq2_value(rng)[0]
            if sc in ((0, 0), (1, 0)):
                sc = (3, 5)
            s2 = rm.f2mul(sc, sc)
            pts.append(('wrong-curve', (rm.f2mul(sub[0], s2), rm.f2mul(sub[1], rm.f2mul(s2, sc)))))
        # ... and such a scale with s^6 = 1 + beta*u: the isomorphic curve's constant then agrees with 5u in its IMAGINARY component
        # only (a curve test that compares one component would pass); real s gives agreement in the real component only
        for _ in range(12):
            beta_ = rng.randrange(1, q)
            rt2 = rm.f2sqrt((1, beta_))
            if rt2 is None:
                continue
            sc = rm.f2_cuberoot(rt2) or rm.f2_cuberoot(rm.f2neg(rt2))
            if sc is None:
                continue
            s2 = rm.f2mul(sc, sc)
            pts.append(('wrong-curve-one-component', (rm.f2mul(sub[0], s2), rm.f2mul(sub[1], rm.f2mul(s2, sc)))))
            break
        for cls, P in pts:
            if P is None:
                continue
            acc = rm.oncurve(F2, P) and rm.cmul(F2, r, P) is None
            ctx.classes['g2/' + cls] += 1
            ex, ey = F2.enc(P[0]), F2.enc(P[1])
            ops = [('g2.aff.new', '%s %s' % (ex, ey)), ('g2.from_slice', ex + ey), ('g2.from_uncompressed', '04' + ex + ey),
                   ('g2.from_compressed', ('02' if P[1][0] % 2 == 0 else '03') + ex)]
            for op, arg in ops:
                lines.append('_ %s %s' % (op, arg))
                if op == 'g2.from_compressed' and not rm.oncurve(F2, P):
                    # the compressed form only carries x and a parity: judge the point it actually denotes
                    Pc = points.lift_x(2, P[0], P[1][0] % 2 == 0)
                    exp.append((op, cls, Pc is not None and rm.cmul(F2, r, Pc) is None, Pc or P))
                else:
                    exp.append((op, cls, acc, P))
    else:
        k = rng.randrange(1, r)
        P = rm.gmul(1, k)
        pts = [('valid', P), ('valid', points.rand_curve_point(rng, 1)), ('near-miss', (P[0], (P[1] + 1) % q)), ('near-miss', ((P[0] + 1) % q, P[1])),
               ('near-miss', (P[1], P[0])), ('random', (rng.randrange(q), rng.randrange(q))), ('near-miss', (P[0], 0)), ('near-miss', (0, P[1]))]
        # x-coordinates aimed at the Montgomery quotient digits of the internal squaring (zero / all-ones digits)
        for _ in range(3):
            xd = gen.mont_digit_square(rng, q)
            Pd = points.lift_x(1, xd)
            pts.append(('valid', Pd) if Pd is not None else ('random', (xd, rng.randrange(q))))
        # y^2 = x^3 + b for another b
        x = rng.randrange(q)
        for bb in (3, 6, q - 5):
            y = rm.fq_sqrt((x ** 3 + bb) % q)
            if y is not None:
                pts.append(('near-miss', (x, y)))
        for cls, Pt in pts:
            acc = rm.oncurve(F1, Pt)
            ctx.classes['g1/' + cls] += 1
            lines.append('_ g1.aff.new %s %s' % (h32(Pt[0]), h32(Pt[1])))
            exp.append(('g1.aff.new', cls, acc, Pt))
    # the curve constants the validation uses, as the public accessors report them
    consts = [('_ g1.b', 'ok ' + h32(5)), ('_ g2.b', 'ok ' + F2.enc((0, 5)))]
    cans = ctx.run([c[0] for c in consts])
    for (line, want), an in zip(consts, cans):
        if an == want:
            ctx.ok('curve-constant', None, False)
        else:
            ctx.fail(line.split()[1], 'the curve constant reported by %s is %r, SM9 has %r' % (line.split()[1], an[:140], want[:140]), observed=an, line=line)
    ans = ctx.run(lines)
    for line, an, (op, cls, acc, P) in zip(lines, ans, exp):
        head = an.split(' ', 1)[0]
        if head not in ('ok', 'err'):
            ctx.fail(op, '%s on a %s point: %r' % (op, cls, an[:120]), observed=an, line=line)
            continue
        if (head == 'ok') == acc:
            ctx.ok('%s/%s' % (op, 'accept' if acc else 'reject'), (op, P))
        else:
            ctx.fail(op, '%s %s a point of class %s (model: %s)' % (op, 'accepted' if head == 'ok' else 'rejected', cls,
                     'on the curve and in the subgroup' if acc else 'not on the curve' if not rm.oncurve(F2 if grp == 'g2' else F1, P) else 'on the twist but outside the order-r subgroup'),
                     observed=an, line=line, cls=cls)
    ctx.sample(grp, {'program': [l[:120] for l in lines[:3]], 'answers': [a[:80] for a in ans[:3]]})
