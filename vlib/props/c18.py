"""C18  Results do not depend on the build profile."""
import collections
import importlib
import re

ID = 'C18'
RULE = ('the workloads of the other monitors (C01-C17: pairings, group law over the representation grid, scalar multiplication, field '
        'arithmetic on limb-pattern operands, histories, malformed decoder inputs, conversions of every length, square roots, encodings, '
        'Gt arithmetic, the internal tower through the hooks) and a workload of MALFORMED group operands (triples off the curve, same x with unrelated y, z = 0 junk, affine values edited through the setters; no oracle for these) are regenerated with this check\'s own seeds and every program is executed by '
        'two executors built from the same tree: --release, and the dev profile exactly as the repository configures it (opt-level 0 for '
        'sm9_core, 3 for dependencies, debug-assertions and overflow-checks on). The two answer logs must be identical line by line '
        '(values, Jacobian coordinates, Ok/Err kinds, None, panics): a debug-only assertion or overflow check that fires shows up as a '
        'panic in the dev log only. distinct = distinct program lines (hashed with their position-independent '
        'text); non-trivial = the line is a call into sm9_core with at least one operand')
ASSUMPTIONS = ['the release-side answers are judged for correctness by the other monitors; this check only compares configurations']

# how many cases of each monitor's quick plan are replayed (quick, thorough)
PLAN = {
    'c01': (12, 400), 'c02': (12, 300), 'c03': (16, 400), 'c04': (120, 2500), 'c05': (30, 800), 'c06': (40, 1500), 'c07': (40, 1500),
    'c08': (213, 3000), 'c09': (12, 300), 'c10': (16, 400), 'c11': (12, 400), 'c12': (40, 1500), 'c13': (190, 3000), 'c14': (30, 1000),
    'c15': (60, 1500), 'c16': (60, 2000), 'c17': (36, 1200),
    'c18junk': (60, 2000),      # malformed group operands (off-curve triples, same x with unrelated y ...): profiles compared, no oracle
}
BAD_PANIC = re.compile(r'overflow|assert|index out of bounds|out of range|shift|unreachable|slice index|subtract|underflow', re.I)


def EXES(tier):
    return ['release', 'dev']


def cases(tier, seed):
    out = []
    for name, (nq, nt) in sorted(PLAN.items()):
        mod = importlib.import_module('vlib.props.' + name)
        cs = mod.cases('quick' if tier == 'quick' else 'thorough', seed)
        want = nq if tier == 'quick' else nt
        if len(cs) <= want:
            pick = list(cs)
        else:
            stepf = len(cs) / float(want)
            pick = [cs[int(i * stepf)] for i in range(want)]
        for spec in pick:
            out.append((name, spec))
    return out


def required(tier):
    return ['agree/' + name for name in sorted(PLAN)] + ['no-debug-only-panic']


class DiffCtx:
    """looks like runner.Ctx to the wrapped monitor, but every program goes to both executors and only the comparison is recorded"""

    def __init__(self, outer, name):
        self.o = outer
        self.name = name
        self.rng = outer.rng
        self.tier = 'quick'
        self.seed = outer.seed
        self.idx = outer.idx
        self.spec = outer.spec
        self.classes = collections.Counter()
        self.notes = []
        self.hooks = getattr(outer, 'hooks', 'lines')
        self.pid = 'C18'

    def run(self, lines, exe='release'):
        a = self.o.run(lines, 'release')
        b = self.o.run(lines, 'dev')
        for line, x, y in zip(lines, a, b):
            toks = line.split()
            nontriv = len(toks) > 2
            if x != y:
                self.o.fail('profile-difference|' + toks[1], '%s answers differently: release %r, dev %r (%s)' % (toks[1], x[:140], y[:140], line[:200]),
                            release=x, dev=y, line=line, workload=self.name)
                continue
            # a panic that is IDENTICAL in both profiles is not a debug-only check (an overflow check or debug_assert cannot fire in
            # the release executor, so one that fires shows up above as a difference); it is only counted
            self.o.ok('agree/' + self.name, (toks[1], line.split(' ', 1)[1] if '$' not in line else (self.name, self.idx, line)), nontriv)
            self.o.classes['no-debug-only-panic'] += 1
            if x.startswith('panic'):
                self.o.count('identical-panics:' + toks[1])
        return b if exe == 'dev' else a

    def ok(self, *a, **k):
        pass

    def fail(self, *a, **k):
        pass

    def count(self, *a, **k):
        pass

    def sample(self, *a, **k):
        pass


def run(ctx, spec):
    name, inner = spec
    mod = importlib.import_module('vlib.props.' + name)
    d = DiffCtx(ctx, name)
    if name == 'c16':
        d.tier = 'quick'
    mod.run(d, inner)
    if ctx.trace:
        t = ctx.trace[0]
        ctx.sample(name, {'workload': name, 'spec': repr(inner)[:80], 'program_head': [l[:110] for l in t['program'][:3]],
                          'release_head': [a[:80] for a in ctx.trace[0]['answers'][:3]],
                          'dev_head': [a[:80] for a in (ctx.trace[1]['answers'][:3] if len(ctx.trace) > 1 else [])]})


def stages(tier, seed):
    """thorough: Miri as a third execution configuration (debug assertions and overflow checks on, plus its UB checks) on small
    field / conversion / Fq2 programs and on one pairing per entry point"""
    if tier != 'thorough':
        return []
    from .. import stages as st
    from .. import rm

    def miri(exes):
        progs = []
        progs += st.capture_programs('c06', [('fq', 10), ('fr', 10)], ID, 'quick', seed, exes, limit_lines=12)
        progs += st.capture_programs('c13', [('bytes', 31, 1), ('bytes', 32, 1), ('bytes', 64, 1), ('bytes', 65, 1), ('setbit', 0, 3)], ID, 'quick', seed, exes, limit_lines=16)
        progs += st.capture_programs('c12', [('mix', 6)], ID, 'quick', seed, exes, limit_lines=12)
        P = rm.jac_lit(rm.F1, rm.g1(0x1234567))
        Q = rm.jac_lit(rm.F2, rm.g2(0x7654321))
        for e in ('pair.pairing', 'pair.fast', 'pair.prepared'):
            progs.append(('pairing/' + e, ['_ %s %s %s' % (e, P, Q)]))
        return st.miri_programs('miri-third-configuration', progs, exes, timeout=2400)
    miri.__name__ = 'miri-third-configuration'
    return [miri]
