"""Workload used only by C18: public group operations on MALFORMED operands (triples that are not on the curve, same x with
unrelated y, z = 0 junk, affine values edited through the setters). No oracle: C18 only compares the two build profiles and
looks for debug-only assertions / overflow checks; a panic that is identical in both profiles (e.g. a pairing of junk whose
denominator vanishes) is an ordinary observation."""
from .. import gen, rm
from ..rm import q, r, F1, F2, h32

ID = 'C18JUNK'


def cases(tier, seed):
    n = 60 if tier == 'quick' else 2000
    return [('junk', i) for i in range(n)]


def run(ctx, spec):
    rng = ctx.rng
    pr = gen.Prog()
    for which in (1, 2):
        F = F1 if which == 1 else F2
        g = 'g%d' % which

        def fe():
            return gen.field_value(rng, q)[0] if which == 1 else gen.fq2_value(rng)[0]
        P = rm.gmul(which, rng.randrange(1, r))
        junk = []
        # random triple; valid point with y changed; same x, unrelated y; z = 0 with junk x, y; valid point with z changed
        junk.append(F.enc(fe()) + F.enc(fe()) + F.enc(fe()))
        junk.append(F.enc(P[0]) + F.enc(F.add(P[1], F.one)) + F.enc(F.one))
        junk.append(F.enc(P[0]) + F.enc(fe()) + F.enc(F.one))
        junk.append(F.enc(fe()) + F.enc(fe()) + F.enc(F.zero))
        junk.append(F.enc(P[0]) + F.enc(P[1]) + F.enc(fe()))
        junk.append(F.enc(P[0]) + F.enc(F.zero) + F.enc(F.one))
        good = rm.jac_lit(F, P)
        regs = [pr.let(g + '.lit', j)[0] for j in junk] + [pr.let(g + '.lit', good)[0]]
        for _ in range(10):
            a, b = rng.choice(regs), rng.choice(regs)
            op = rng.choice(['add', 'sub', 'neg', 'mul', 'eq', 'normalize', 'aff.from_jacobian', 'is_zero', 'raw.double'])
            if op in ('add', 'sub', 'eq'):
                pr.emit('_' if op == 'eq' else 't', g + '.' + op, a, b)
            elif op == 'mul':
                pr.emit('t', g + '.mul', a, h32(gen.scalar_r(rng)[0]))
            elif op == 'raw.double':
                pr.emit('t', 'raw.%s.double' % g, a)
            else:
                pr.emit('t' if op in ('neg', 'normalize') else '_', g + '.' + op, a)
        # setters on affine values
        av = pr.let(g + '.aff.from_jacobian', regs[-1])[0]
        av = pr.let(g + '.aff.set_y', av, F.enc(fe()))[0]
        bad = pr.let(g + '.aff.to_g', av)[0]
        pr.emit('_', g + '.add', bad, regs[-1])
        pr.emit('_', g + '.mul', bad, h32(rng.randrange(r)))
    # pairings of junk (may legitimately panic in both profiles)
    g1regs = ['$' + l.split()[0] for l in pr.lines if ' g1.lit ' in l]
    g2regs = ['$' + l.split()[0] for l in pr.lines if ' g2.lit ' in l]
    for e in ('pair.pairing', 'pair.fast', 'pair.prepared'):
        pr.emit('_', e, rng.choice(g1regs), rng.choice(g2regs))
    ctx.run(pr.lines)
