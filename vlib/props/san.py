"""Pseudo-property used by sanitizer stages: re-run another monitor's programs on the release executor and on a sanitizer
executor, compare the answers and look for sanitizer reports. spec = (exe, module name, inner spec)."""
import collections
import importlib

ID = 'SAN'
RULE = 'differential re-execution under a sanitizer build'


class SanCtx:
    def __init__(self, outer, exe, name):
        self.o = outer
        self.exe = exe
        self.name = name
        self.rng = outer.rng
        self.tier = 'quick'
        self.seed = outer.seed
        self.idx = outer.idx
        self.spec = outer.spec
        self.classes = collections.Counter()
        self.notes = []
        self.hooks = getattr(outer, 'hooks', 'lines')
        self.pid = 'SAN'

    def run(self, lines, exe='release'):
        a = self.o.run(lines, 'release')
        b = self.o.run(lines, self.exe)
        for line, x, y in zip(lines, a, b):
            if y.startswith('died'):
                if 'Sanitizer' in y or 'rc=66' in y or 'rc=77' in y:
                    self.o.count('sanitizer-reports')
                    self.o.fail('sanitizer-report', '%s executor: %s (at %s)' % (self.exe, y[:900], line[:160]), line=line, report=y)
                else:
                    self.o.fail('sanitizer-died', '%s executor died without a report: %s (at %s)' % (self.exe, y[:300], line[:160]), line=line)
                break
            if y == 'skipped':
                break
            if x != y:
                self.o.count('differences')
                self.o.fail('difference|' + line.split()[1], 'release %r vs %s %r (%s)' % (x[:120], self.exe, y[:120], line[:160]), line=line)
                break
            self.o.ok('agree/' + self.exe, None, False)
        return a

    def ok(self, *a, **k):
        pass

    def fail(self, *a, **k):
        pass

    def count(self, *a, **k):
        pass

    def sample(self, *a, **k):
        pass


def cases(tier, seed):
    return []


def run(ctx, spec):
    exe, name, inner = spec
    mod = importlib.import_module('vlib.props.' + name)
    mod.run(SanCtx(ctx, exe, name), inner)
