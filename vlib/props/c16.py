"""C16  Any history of group operations behaves like arithmetic in Z_r."""
import itertools
from .. import gen, rm
from ..mon import gt_hex
from ..rm import q, r, F1, F2, h32

ID = 'C16'
EXES = ['release']
ALPHABET = [0, 1, 2, r - 1]
RULE = ('programs over registers A (= generator) and B (= identity) of one group with the instruction set {X=X+Y, X=X-Y, X=-X, X=X*s, '
        'X=s*X, normalize X, affine round trip X, encode/decode X in the raw / 0x04 / compressed format, X=Y} for X, Y in {A, B} and '
        's in {0, 1, 2, r-1} (%d instructions); EXHAUSTIVE over all programs of depth <= 2 (quick, plus a seeded sample of depth 3) resp. <= 3 (thorough, plus all depth-4 programs over a reduced 26-instruction set) in each group, '
        'except that programs which would encode the identity are pruned (to_slice of the identity panics by API contract; pruned count '
        'reported); plus random programs of length 10-80 with arbitrary scalars. The model tracks ONLY the '
        'discrete logarithm of each register. After the program, per register: the stored triple must denote [dlog]G (model affine map), '
        '== against a freshly computed and normalised one()*dlog, is_zero, the three encodings (model-constructed bytes) and, for a '
        'sample, the three pairing entry points against a fixed partner (= e(P1,P2)^(dlog*dlog\')). '
        'distinct = distinct (group, program text); non-trivial = the program contains at least one binary operation or scalar multiplication')
FMT = ['slice', 'uncompressed', 'compressed']


def instructions():
    ins = []
    for x in 'AB':
        for y in 'AB':
            ins.append(('add', x, y))
            ins.append(('sub', x, y))
    for x in 'AB':
        ins.append(('neg', x))
        for s in range(4):
            ins.append(('mul', x, s))
            ins.append(('rmul', x, s))
        ins.append(('normalize', x))
        ins.append(('affine', x))
        for f in FMT:
            ins.append(('rt_' + f, x))
    ins.append(('copy', 'A', 'B'))
    ins.append(('copy', 'B', 'A'))
    return ins


INS = instructions()
INS4 = [i for i in INS if i[0] in ('add', 'sub', 'neg', 'mul', 'normalize', 'affine', 'rt_compressed', 'copy')]
RULE = RULE % len(INS)


def exhaustive(tier):
    return True


def depth(tier):
    return 2 if tier == 'quick' else 3


def cases(tier, seed):
    d = depth(tier)
    out = []
    n = len(INS)
    # chunks of the exhaustive enumeration: (which, depth, first-instruction index)
    for which in (1, 2):
        out.append(('exh', which, 0, -1))
        for dd in range(1, d + 1):
            for first in range(n):
                out.append(('exh', which, dd, first))
    if tier == 'thorough':
        # depth 4 over the reduced instruction set INS4 (one scalar-multiplication form, one encoding format)
        for which in (1, 2):
            for a in range(len(INS4)):
                for b in range(len(INS4)):
                    out.append(('exh4', which, a, b))
    else:
        # a seeded sample of depth-3 programs on top of the exhaustive depth <= 2
        for i in range(256):
            out.append(('samp3', i))
    nr = 800 if tier == 'quick' else 20000
    for i in range(nr):
        out.append(('rand', i))
    return out


def required(tier):
    req = ['exhaustive/g1/depth%d' % d for d in range(0, depth(tier) + 1)] + ['exhaustive/g2/depth%d' % d for d in range(0, depth(tier) + 1)]
    req += ['exhaustive-reduced/g1/depth4', 'exhaustive-reduced/g2/depth4'] if tier == 'thorough' else ['sample/depth3']
    req += ['random/program', 'obs/denotes', 'obs/eq-fresh', 'obs/eq-other', 'obs/is_zero', 'obs/encoding', 'obs/pairing', 'obs/identity-register',
            'obs/non-normalised-register']
    return req


def step(dl, ins):
    """model: dlog transition. Returns new dict, or None when the program must be pruned (would encode the identity)."""
    op = ins[0]
    d = dict(dl)
    x = ins[1]
    if op == 'add':
        d[x] = (dl[x] + dl[ins[2]]) % r
    elif op == 'sub':
        d[x] = (dl[x] - dl[ins[2]]) % r
    elif op == 'neg':
        d[x] = (-dl[x]) % r
    elif op in ('mul', 'rmul'):
        s = ins[2] if isinstance(ins[2], int) and ins[2] > 3 else ALPHABET[ins[2]]
        d[x] = dl[x] * s % r
    elif op == 'copy':
        d[x] = dl[ins[2]]
    elif op.startswith('rt_'):
        if dl[x] == 0:
            return None
    return d


def emit(pr, g, ins, is_identity=False):
    op, x = ins[0], ins[1]
    if op in ('add', 'sub'):
        pr.emit(x, '%s.%s' % (g, op), '$' + x, '$' + ins[2])
    elif op == 'neg':
        pr.emit(x, g + '.neg', '$' + x)
    elif op == 'mul':
        s = ins[2] if ins[2] > 3 else ALPHABET[ins[2]]
        pr.emit(x, g + '.mul', '$' + x, h32(s))
    elif op == 'rmul':
        s = ins[2] if ins[2] > 3 else ALPHABET[ins[2]]
        pr.emit(x, g + '.rmul', h32(s), '$' + x)
    elif op == 'normalize':
        pr.emit(x, g + '.normalize', '$' + x)
    elif op == 'affine':
        # from_jacobian answers None for the identity: the register then simply keeps its value
        pr.emit('t', g + '.aff.from_jacobian', '$' + x)
        if not is_identity:
            pr.emit(x, g + '.aff.to_g', '$t')
    elif op == 'copy':
        pr.emit(x, g + '.lit', '$' + ins[2])
    else:
        pr.emit(x, '%s.%s' % (g, op), '$' + x)


def observe(ctx, which, prog_ins, label, pair_sample):
    """run one program and judge every observation; returns False when pruned"""
    g = 'g%d' % which
    F = F1 if which == 1 else F2
    dl = {'A': 1, 'B': 0}
    for ins in prog_ins:
        dl = step(dl, ins)
        if dl is None:
            ctx.count('pruned-would-encode-identity')
            return False
    pr = gen.Prog()
    pr.emit('A', g + '.one')
    pr.emit('B', g + '.zero')
    nsetup = 2
    cur = {'A': 1, 'B': 0}
    for ins in prog_ins:
        emit(pr, g, ins, cur[ins[1]] == 0)
        cur = step(cur, ins)
    nprog = len(pr.lines)
    obs = []
    for x in 'AB':
        d = dl[x]
        P = rm.gmul(which, d)
        obs.append((pr.emit('_', g + '.lit', '$' + x), 'denotes', x, P))
        pr.emit('f', g + '.mul', pr.let(g + '.one')[0], h32(d))
        pr.emit('f', g + '.normalize', '$f')
        obs.append((pr.emit('_', g + '.eq', '$' + x, '$f'), 'eq-fresh', x, 'bool true'))
        obs.append((pr.emit('_', g + '.eq', '$f', '$' + x), 'eq-fresh', x, 'bool true'))
        obs.append((pr.emit('_', g + '.is_zero', '$' + x), 'is_zero', x, 'bool ' + str(d == 0).lower()))
        for dd in ((-d) % r, (d + 1) % r):
            pr.emit('n', g + '.mul', pr.let(g + '.one')[0], h32(dd))
            obs.append((pr.emit('_', g + '.eq', '$' + x, '$n'), 'eq-other', x, 'bool ' + str(dd == d).lower()))
        if P is not None:
            from .c10 import encode
            for f in FMT:
                obs.append((pr.emit('_', '%s.to_%s' % (g, f), '$' + x), 'encoding', x, 'bytes ' + encode(which, P, f)))
            if pair_sample:
                d2 = 0x1F2E3D4C5B6A79880123456789ABCDEF % r
                other = rm.jac_lit(F2 if which == 1 else F1, rm.gmul(3 - which, d2))
                want = 'ok ' + gt_hex(rm.gt_pow_base(d * d2))
                for e in ('pair.pairing', 'pair.fast', 'pair.prepared'):
                    args = ('$' + x, other) if which == 1 else (other, '$' + x)
                    obs.append((pr.emit('_', e, *args), 'pairing', x, want))
        elif pair_sample:
            other = rm.jac_lit(F2 if which == 1 else F1, rm.gmul(3 - which, 5))
            for e in ('pair.pairing', 'pair.fast', 'pair.prepared'):
                args = ('$' + x, other) if which == 1 else (other, '$' + x)
                obs.append((pr.emit('_', e, *args), 'pairing', x, 'ok ' + gt_hex(rm.ONE)))
    ans = ctx.run(pr.lines)
    text = ' ; '.join(' '.join(str(t) for t in ins) for ins in prog_ins)
    # program lines must all have returned a value (or None for the affine view of an identity)
    for i in range(nprog):
        an = ans[i]
        if an.startswith('ok ') or (an == 'none' and '.aff.from_jacobian' in pr.lines[i]):
            continue
        ctx.fail('program', 'program "%s" in %s: line %r answered %r' % (text, g, pr.lines[i][:80], an[:100]), observed=an, line=pr.lines[i], program=text)
        return True
    okall = True
    for i, what, x, want in obs:
        an = ans[i]
        if what == 'denotes':
            good = False
            try:
                xyz = rm.jac_parse(F, an[3:]) if an.startswith('ok ') else None
                good = xyz is not None and rm.jac_affine(F, xyz) == want
                if good:
                    if xyz[2] == F.zero:
                        ctx.classes['obs/identity-register'] += 1
                    elif xyz[2] != F.one:
                        ctx.classes['obs/non-normalised-register'] += 1
            except Exception:
                good = False
        else:
            good = an == want
        if good:
            ctx.ok('obs/' + what, None, False)
        else:
            okall = False
            ctx.fail(pr.lines[i].split()[1], 'after "%s" in %s register %s (dlog %s): %s observed %r, tracking the discrete log predicts %r' % (
                text, g, x, h32(dl[x])[:20] + '…', pr.lines[i].split()[1], an[:90], (want if isinstance(want, str) else repr(want))[:90]),
                observed=an, line=pr.lines[i], program=text)
    if okall:
        nontriv = any(ins[0] in ('add', 'sub', 'mul', 'rmul') for ins in prog_ins)
        ctx.ok(label, (which, text), nontriv)
    return True


def run(ctx, spec):
    kind = spec[0]
    rng = ctx.rng
    if kind == 'exh':
        _, which, d, first = spec
        if d == 0:
            observe(ctx, which, [], 'exhaustive/g%d/depth0' % which, True)
            return
        n = len(INS)
        count = 0
        for rest in itertools.product(range(n), repeat=d - 1):
            prog = [INS[first]] + [INS[j] for j in rest]
            count += 1
            observe(ctx, which, prog, 'exhaustive/g%d/depth%d' % (which, d), count % 16 == 0)
        ctx.count('exhaustive-programs-enumerated', count)
        if d == depth(ctx.tier):
            ctx.sample('exhaustive', {'group': which, 'depth': d, 'first_instruction': list(INS[first]), 'programs_in_chunk': count})
    elif kind == 'exh4':
        _, which, a, b = spec
        count = 0
        for c in range(len(INS4)):
            for d in range(len(INS4)):
                count += 1
                observe(ctx, which, [INS4[a], INS4[b], INS4[c], INS4[d]], 'exhaustive-reduced/g%d/depth4' % which, count % 64 == 0)
        ctx.count('exhaustive-depth4-programs-enumerated', count)
    elif kind == 'samp3':
        for _ in range(40):
            which = rng.choice([1, 2])
            observe(ctx, which, [INS[rng.randrange(len(INS))] for _ in range(3)], 'sample/depth3', rng.random() < 0.1)
    else:
        which = rng.choice([1, 2])
        L = rng.randrange(10, 81)
        prog = []
        dl = {'A': 1, 'B': 0}
        while len(prog) < L:
            if rng.random() < 0.04:
                # endomorphism template: B = [lambda^k]A shares its y (or, negated, its y up to sign) with A; then combine them,
                # after optionally making both registers non-normalised
                lam = pow(gen.LAMBDA_R, rng.choice([1, 2]), r)
                if rng.random() < 0.5:
                    lam = r - lam
                tmpl = [('copy', 'B', 'A'), ('mul', 'B', lam)]
                if rng.random() < 0.7:
                    tmpl = [('add', 'A', 'A')] + tmpl
                tmpl.append(rng.choice([('add', 'A', 'B'), ('sub', 'A', 'B'), ('add', 'B', 'A'), ('sub', 'B', 'A')]))
                ok = True
                nd = dl
                for ins in tmpl:
                    nd = step(nd, ins)
                    if nd is None:
                        ok = False
                        break
                if ok:
                    dl = nd
                    prog.extend(tmpl)
                    ctx.count('endomorphism-templates')
                continue
            ins = INS[rng.randrange(len(INS))]
            if ins[0] in ('mul', 'rmul') and rng.random() < 0.7:
                ins = (ins[0], ins[1], max(4, gen.scalar_r(rng)[0]))
            nd = step(dl, ins)
            if nd is None:
                continue
            dl = nd
            prog.append(ins)
        observe(ctx, which, prog, 'random/program', rng.random() < 0.3)
        ctx.sample('random', {'group': which, 'length': L, 'head': [' '.join(str(t)[:20] for t in ins) for ins in prog[:8]]})
