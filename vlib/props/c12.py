"""C12  Fq2 arithmetic is arithmetic in Fq[u]/(u^2+2)."""
from .. import gen, rm, points, paths
from ..mon import check, f2hex, is_abnormal
from ..rm import q, R, h32, f2add, f2sub, f2mul, f2neg, F2

ID = 'C12'
EXES = ['release']
RULE = ('each event is one public Fq2 call (six operator forms of + - *, neg, new/real/imaginary, is_even, is_zero, to_slice, '
        'from_slice, ==), a ring-axiom instance evaluated by the library on both sides, the internal squaring (hook and through '
        'G2 doubling / mixed addition of points of the twist whose x-coordinates come from the limb classes) or the interleaved sum-of-products multiplier itself (hook), on '
        'components from limb-pattern classes incl. all-(q-1-d) operands; judged against pairs of Python integers with u^2 = -2. '
        'The number of 2^256 carries of the exact accumulator (sum A_i*B_i + k*q)/2^256 is computed by the model per '
        'multiplication and reported. distinct = distinct (op, operands); non-trivial = some operand has two non-zero components')
ASSUMPTIONS = ['carry counts are computed by the model from the operands (Montgomery representatives), not read from the crate']

FORMS = ['vv', 'rv', 'vr', 'rr', 'av', 'ar']
HOOK_CLASSES = ('sqr.hook', 'sop.', 'carry.sop')
QINV = (-pow(q, -1, R)) % R


def carries(As, Bs):
    """number of 2^256 carries of the interleaved accumulator for Montgomery representatives As, Bs"""
    S = sum(a * b for a, b in zip(As, Bs))
    k = (S * QINV) % R
    u = (S + k * q) >> 256
    return u >> 256


def mul_carries(x, y):
    """carry counts of the two sums of products of Fq2 multiplication x*y as the crate arranges them"""
    m = lambda v: rm.mont(v % q, q)
    c0 = carries([m(x[0]), m(-2 * x[1])], [m(y[0]), m(y[1])])
    c1 = carries([m(x[0]), m(x[1])], [m(y[1]), m(y[0])])
    return c0, c1


def cases(tier, seed):
    n = 1500 if tier == 'quick' else 64000
    return [('mix', 120)] * n


def required(tier):
    req = ['fq2.%s.%s' % (op, fm) for op in ('add', 'sub', 'mul') for fm in FORMS]
    req += ['result/self-consistent', 'fq2.neg.v', 'fq2.neg.r', 'fq2.new', 'fq2.real', 'fq2.imaginary', 'fq2.is_even', 'fq2.is_zero', 'fq2.is_zero/zero',
            'fq2.to_slice', 'fq2.from_slice', 'fq2.from_slice/out-of-range', 'fq2.eq', 'axiom.comm', 'axiom.assoc', 'axiom.distrib', 'axiom.one',
            'sqr.hook', 'sqr.g2double', 'g2.mixed_add', 'sop.2', 'sop.4', 'carry.mul/0', 'carry.mul/1', 'carry.sop4/2', 'mul/exact-cancellation', 'mul/accumulator-boundary', 'sop.2/accumulator-boundary']
    return req


def rand2(rng):
    return gen.fq2_value(rng)[0]


def run(ctx, spec):
    _, n = spec
    rng = ctx.rng
    lines, exp = [], []   # exp: (cls, want or callable, key, nontrivial)

    def nt(*xs):
        return any(x[0] and x[1] for x in xs)

    def self_consistency(v, key):
        # the encoding reduces a coordinate stored as the unreduced modulus to zero, so a result is also asked about itself: it must
        # compare equal to the literal of its value, and is_zero of the element / of each component must agree with the value
        if v[0] and v[1] and rng.random() < 0.75:
            return
        lines.append('_ fq2.eq $t %s' % f2hex(v))
        exp.append(('result/self-consistent', 'bool true', ('res-eq',) + key, True))
        lines.append('_ fq2.is_zero $t')
        exp.append(('result/self-consistent', 'bool ' + str(v == (0, 0)).lower(), ('res-z',) + key, True))
        for part, j in (('real', 0), ('imaginary', 1)):
            lines.append('c fq2.%s $t' % part)
            exp.append(('fq2.' + part, 'ok ' + h32(v[j]), ('res-' + part,) + key, True))
            lines.append('_ fq.is_zero $c')
            exp.append(('result/self-consistent', 'bool ' + str(v[j] == 0).lower(), ('res-cz', part) + key, True))
            lines.append('_ fq.eq $c %s' % h32(v[j]))
            exp.append(('result/self-consistent', 'bool true', ('res-ceq', part) + key, True))

    kinds = ['add', 'sub', 'mul', 'mul', 'mul', 'neg', 'acc', 'pred', 'axiom', 'sqr', 'g2', 'sop']
    for _ in range(n):
        kind = kinds[rng.randrange(len(kinds))]
        x, cx = gen.fq2_value(rng)
        y, cy = gen.fq2_value(rng)
        z = rand2(rng)
        k = rng.randrange(8)
        if k == 0:
            y = x
        elif k == 1:
            y = f2neg(x)
        elif k == 5 and kind == 'mul':
            # the imaginary-part accumulator x0*y1 + x1*y0 solved to sit exactly on a boundary of the carry folding
            got = gen.sop2_boundary(rng)
            if got:
                x = (got[0], got[1])
                y = (got[3], got[2])
                ctx.classes['mul/accumulator-boundary'] += 1
        elif k in (6, 7) and x[0] and x[1]:
            # exact cancellation: choose y so that one coefficient of x*y is exactly 0, 1 or q-1 although every partial product is non-zero
            tgt = rng.choice([0, 0, 1, q - 1])
            d = y[1] or 3
            if k == 6:      # real part x0*c - 2*x1*d = tgt
                c = (tgt + 2 * x[1] * d) * pow(x[0], -1, q) % q
            else:           # imaginary part x0*d + x1*c = tgt
                c = (tgt - x[0] * d) * pow(x[1], -1, q) % q
            y = (c, d)
            ctx.classes['mul/exact-cancellation'] += 1
        if kind in ('add', 'sub', 'mul'):
            fm = FORMS[rng.randrange(6)]
            v = f2add(x, y) if kind == 'add' else f2sub(x, y) if kind == 'sub' else f2mul(x, y)
            lines.append('t fq2.%s.%s %s %s' % (kind, fm, f2hex(x), f2hex(y)))
            exp.append(('fq2.%s.%s' % (kind, fm), 'ok ' + f2hex(v), (kind, x, y), nt(x, y)))
            self_consistency(v, (kind, x, y))
            if kind == 'mul':
                for c in mul_carries(x, y):
                    ctx.classes['carry.mul/%d' % c] += 1
        elif kind == 'neg':
            fm = 'vr'[rng.randrange(2)]
            lines.append('t fq2.neg.%s %s' % (fm, f2hex(x)))
            exp.append(('fq2.neg.%s' % fm, 'ok ' + f2hex(f2neg(x)), ('neg', x), nt(x)))
            self_consistency(f2neg(x), ('neg', x))
        elif kind == 'acc':
            lines.append('a fq2.new %s %s' % (h32(x[0]), h32(x[1])))
            exp.append(('fq2.new', 'ok ' + f2hex(x), ('new', x), nt(x)))
            lines.append('_ fq2.real $a')
            exp.append(('fq2.real', 'ok ' + h32(x[0]), ('real', x), nt(x)))
            lines.append('_ fq2.imaginary $a')
            exp.append(('fq2.imaginary', 'ok ' + h32(x[1]), ('imag', x), nt(x)))
            lines.append('_ fq2.to_slice $a')
            exp.append(('fq2.to_slice', 'bytes ' + f2hex(x), ('to_slice', x), nt(x)))
            lines.append('_ fq2.into_bytes.v $a')
            exp.append(('fq2.to_slice', 'bytes ' + f2hex(x), ('into', x), nt(x)))
            lines.append('_ fq2.from_slice %s' % f2hex(x))
            exp.append(('fq2.from_slice', 'ok ' + f2hex(x), ('from_slice', x), nt(x)))
            # a half that is not below q (q itself, q+1, 2^256-1): not an element of the field, must be refused
            badv = rng.choice([q, q, q + 1, (1 << 256) - 1, q + x[0] % 997])
            halves = (h32(badv) + h32(x[0])) if rng.random() < 0.5 else (h32(x[1]) + h32(badv))
            lines.append('_ fq2.from_slice %s' % halves)
            exp.append(('fq2.from_slice/out-of-range', 'none', ('from_slice-bad', halves), True))
        elif kind == 'pred':
            if rng.random() < 0.2:
                x = (0, 0)
            elif rng.random() < 0.2:
                x = (0, x[1]) if rng.random() < 0.5 else (x[0], 0)
            lines.append('_ fq2.is_zero %s' % f2hex(x))
            exp.append(('fq2.is_zero' + ('/zero' if x == (0, 0) else ''), 'bool ' + str(x == (0, 0)).lower(), ('is_zero', x), nt(x)))
            lines.append('_ fq2.is_even %s' % f2hex(x))
            exp.append(('fq2.is_even', 'bool ' + str(x[0] % 2 == 0).lower(), ('is_even', x), nt(x)))
            lines.append('_ fq2.eq %s %s' % (f2hex(x), f2hex(y)))
            exp.append(('fq2.eq', 'bool ' + str(x == y).lower(), ('eq', x, y), nt(x, y)))
            lines.append('_ fq2.ne %s %s' % (f2hex(x), f2hex(y)))
            exp.append(('fq2.eq', 'bool ' + str(x != y).lower(), ('ne', x, y), nt(x, y)))
        elif kind == 'axiom':
            X, Y, Z = f2hex(x), f2hex(y), f2hex(z)
            which = rng.randrange(4)
            if which == 0:
                lines.append('_ fq2.mul.vv %s %s' % (Y, X))
                exp.append(('axiom.comm', 'ok ' + f2hex(f2mul(x, y)), ('comm', x, y), nt(x, y)))
            elif which == 1:
                lines.append('t fq2.mul.vv %s %s' % (X, Y))
                exp.append(('fq2.mul.vv', 'ok ' + f2hex(f2mul(x, y)), ('mul', x, y), nt(x, y)))
                lines.append('l fq2.mul.rr $t %s' % Z)
                exp.append(('axiom.assoc', 'ok ' + f2hex(f2mul(f2mul(x, y), z)), ('assoc-l', x, y, z), nt(x, y, z)))
                lines.append('t2 fq2.mul.vv %s %s' % (Y, Z))
                exp.append(('fq2.mul.vv', 'ok ' + f2hex(f2mul(y, z)), ('mul', y, z), nt(y, z)))
                lines.append('r fq2.mul.rr %s $t2' % X)
                exp.append(('axiom.assoc', 'ok ' + f2hex(f2mul(x, f2mul(y, z))), ('assoc-r', x, y, z), nt(x, y, z)))
                lines.append('_ fq2.eq $l $r')
                exp.append(('axiom.assoc', 'bool true', ('assoc-eq', x, y, z), nt(x, y, z)))
            elif which == 2:
                lines.append('s fq2.add.vv %s %s' % (Y, Z))
                exp.append(('fq2.add.vv', 'ok ' + f2hex(f2add(y, z)), ('add', y, z), nt(y, z)))
                lines.append('l fq2.mul.rr %s $s' % X)
                exp.append(('axiom.distrib', 'ok ' + f2hex(f2mul(x, f2add(y, z))), ('dist-l', x, y, z), nt(x, y, z)))
                lines.append('p1 fq2.mul.vv %s %s' % (X, Y))
                exp.append(('fq2.mul.vv', 'ok ' + f2hex(f2mul(x, y)), ('mul', x, y), nt(x, y)))
                lines.append('p2 fq2.mul.vv %s %s' % (X, Z))
                exp.append(('fq2.mul.vv', 'ok ' + f2hex(f2mul(x, z)), ('mul', x, z), nt(x, z)))
                lines.append('r fq2.add.rr $p1 $p2')
                exp.append(('axiom.distrib', 'ok ' + f2hex(f2add(f2mul(x, y), f2mul(x, z))), ('dist-r', x, y, z), nt(x, y, z)))
                lines.append('_ fq2.eq $l $r')
                exp.append(('axiom.distrib', 'bool true', ('dist-eq', x, y, z), nt(x, y, z)))
            else:
                lines.append('o fq2.one')
                exp.append(('axiom.one', 'ok ' + f2hex((1, 0)), None, False))
                lines.append('_ fq2.mul.rr %s $o' % X)
                exp.append(('axiom.one', 'ok ' + X, ('one', x), nt(x)))
        elif kind == 'sqr':
            lines.append('_ raw.fq2.sqr %s' % f2hex(x))
            exp.append(('sqr.hook', 'ok ' + f2hex(f2mul(x, x)), ('sqr', x), nt(x)))
            lines.append('_ fq2.mul.rr %s %s' % (f2hex(x), f2hex(x)))
            exp.append(('fq2.mul.rr', 'ok ' + f2hex(f2mul(x, x)), ('mul', x, x), nt(x)))
        elif kind == 'g2':
            # points ON the twist (not necessarily in the subgroup) whose x comes from the limb classes: the squaring and the
            # mixed multiplications inside doubling / addition see boundary Fq2 values; on-curve so that formulas which use
            # the curve constant stay legitimate
            P = None
            for _try in range(8):
                P = points.lift_x(2, x)
                if P is not None:
                    break
                x = gen.fq2_value(rng)[0]
            if P is None:
                continue
            x, y = P
            lit = f2hex(x) + f2hex(y) + f2hex((1, 0))
            lines.append('_ g2.add %s %s' % (lit, lit))
            exp.append(('sqr.g2double', ('aff', rm.cadd(F2, P, P)), ('g2dbl', x, y), nt(x, y)))
            Q2 = points.lift_x(2, z)
            if Q2 is not None and Q2[0] != x:
                x2, y2 = Q2
                lam = rand2(rng) if rng.random() < 0.5 else (1, 0)
                if lam == (0, 0):
                    lam = (1, 0)
                lit2 = rm.jac_lit(F2, (x2, y2), lam)
                lines.append('_ g2.add %s %s' % ((lit, lit2) if rng.random() < 0.5 else (lit2, lit)))
                exp.append(('g2.mixed_add', ('aff', rm.cadd(F2, P, (x2, y2))), ('g2add', x, y, x2, y2, lam), nt(x, y)))
        elif kind == 'sop':
            T = 2 if rng.random() < 0.4 else 4
            if rng.random() < 0.3:
                # operands whose Montgomery representatives are all close to q-1: maximises the accumulator
                a = [rm.unmont(q - 1 - rng.randrange(3), q) for _ in range(T)]
                b = [rm.unmont(q - 1 - rng.randrange(3), q) for _ in range(T)]
            else:
                a = [gen.field_value(rng, q)[0] for _ in range(T)]
                b = [gen.field_value(rng, q)[0] for _ in range(T)]
            if rng.random() < 0.3:
                # solve the last factor so that the Montgomery quotient digits of the accumulated sum follow a boundary pattern
                K = gen._digit_pattern(rng)
                Tt = (-K * q) % R
                A = [rm.mont(v_, q) for v_ in a]
                B = [rm.mont(v_, q) for v_ in b]
                A[-1] |= 1
                rest = sum(x_ * y_ for x_, y_ in zip(A[:-1], B[:-1]))
                Bl = (Tt - rest) * pow(A[-1], -1, R) % R
                if A[-1] < q and Bl < q:
                    a[-1] = rm.unmont(A[-1], q)
                    b[-1] = rm.unmont(Bl, q)
                    ctx.count('sop:mont-digit-directed')
            if T == 2 and rng.random() < 0.35:
                got = gen.sop2_boundary(rng)
                if got:
                    a, b = [got[0], got[1]], [got[2], got[3]]
                    ctx.count('sop:accumulator-boundary')
                    ctx.classes['sop.2/accumulator-boundary'] += 1
            v = sum(s * t_ for s, t_ in zip(a, b)) % q
            lines.append('_ sop.%d %s %s' % (T, ' '.join(h32(v_) for v_ in a), ' '.join(h32(v_) for v_ in b)))
            exp.append(('sop.%d' % T, 'ok ' + h32(v), ('sop', tuple(a), tuple(b)), True))
            c = carries([rm.mont(v_, q) for v_ in a], [rm.mont(v_, q) for v_ in b])
            ctx.classes['carry.sop%d/%d' % (T, c)] += 1
            for e in paths.sop_events([rm.mont(v_, q) for v_ in a], [rm.mont(v_, q) for v_ in b], q):
                ctx.count('path:T=%d:%s' % (T, e))
    ans = ctx.run(lines)
    for line, an, (cls, want, key, nontriv) in zip(lines, ans, exp):
        if isinstance(want, tuple):
            # group-operation observation: compare the affine image of the returned triple
            kind, payload = an.split(' ', 1) if ' ' in an else (an, '')
            if kind != 'ok':
                ctx.fail(cls, '%s: %r for %s' % (cls, an[:120], line[:200]), observed=an, line=line)
                continue
            try:
                got = rm.jac_affine(F2, rm.jac_parse(F2, payload))
            except Exception as e:
                ctx.fail(cls, '%s: unparsable %r (%s)' % (cls, an[:120], e), observed=an, line=line)
                continue
            if got == want[1]:
                ctx.ok(cls, key, nontriv)
            else:
                ctx.fail(cls, '%s: affine image %r differs from the rational formula %r for %s' % (cls, got, want[1], line[:200]),
                         observed=an, expected=repr(want[1]), line=line)
        else:
            check(ctx, an, want, cls.split('/')[0], cls, key, line=line, nontrivial=nontriv)
    ctx.sample('program', {'lines': lines[:4], 'answers': [a[:140] for a in ans[:4]]})
