"""C01  Pairing is bilinear, non-degenerate and trivial on the identity."""
from .. import gen, rm
from ..mon import gt_parse, gt_hex
from ..rm import q, r, F1, F2, h32

ID = 'C01'
PERTURB = (8, 80)      # cases re-run in the repeat / parallel perturbation passes (quick, thorough)
EXES = ['release']
RULE = ('each case draws scalars a, a\', b, b\' (classes: 0, 1, 2, r-1, r-2, (r+-1)/2, 2^i, long runs, sparse, limb patterns, uniform) '
        'and representations for P = aG1, P\' = a\'G1, Q = bG2, Q\' = b\'G2 (z=1, library Jacobian, lambda-rescaled, computed by library '
        'scalar multiplication, identity in its three forms); for each of pairing(), fast_pairing(), G2Prepared::pairing() the library '
        'returns e(P,Q), e(P\',Q), e(P,Q\'), e(P+P\',Q), e(P,Q+Q\'), e(G1,G2), e(O,Q), e(P,O), e(O,O). The monitor parses the 384-byte '
        'values (every limb < q) and judges with the model\'s flat Fq12 arithmetic: e(aG,bH) = e(G,H)^(ab), additivity in each argument, '
        'identity cases = 1, e(G1,G2) != 1, g^r = 1; the same relations are also evaluated through the library\'s Gt::pow / mul / == . '
        'distinct = distinct (entry point, relation, operand triples); non-trivial = both operands non-identity and ab not in {0, 1}')
ENTRY = ['pair.pairing', 'pair.fast', 'pair.prepared']
PREPS = gen.REPS + ['mul']


def cases(tier, seed):
    n = 320 if tier == 'quick' else 16000
    return [('bil', i) for i in range(n)]


def required(tier):
    req = []
    for e in ENTRY:
        req += [e + '/power', e + '/add-left', e + '/add-right', e + '/e(O,Q)', e + '/e(P,O)', e + '/e(O,O)', e + '/nondegenerate', e + '/order-r',
                e + '/lib-pow', e + '/lib-mul', e + '/lib-order']
        req += [e + '/identity-form-' + i for i in gen.ID_REPS]
        req += [e + '/zero-scalar']
    return req


def run(ctx, spec):
    rng = ctx.rng
    pr = gen.Prog()

    def scal():
        k, c = gen.scalar_r(rng)
        if rng.random() < 0.08:
            k = 0
        return k

    def mk(which, k):
        """register holding [k]G in some representation; returns (reg, label)"""
        g = 'g%d' % which
        if k == 0:
            idr = rng.choice(gen.ID_REPS + ['mul0'])
            if idr == 'mul0':
                return pr.let(g + '.mul', pr.let(g + '.one')[0], h32(0))[0], 'zero-scalar'
            return gen.identity(pr, rng, which, idr), 'identity-form-' + idr
        rep = rng.choice(PREPS)
        if rep == 'mul':
            return pr.let(g + '.mul', pr.let(g + '.one')[0], h32(k))[0], rep
        return gen.point(pr, rng, which, k, rep), rep

    a, a2, b, b2 = scal(), scal(), scal(), scal()
    P, lp = mk(1, a)
    P2, _l = mk(1, a2)
    Q, lq = mk(2, b)
    Q2, _l = mk(2, b2)
    G1g = pr.let('g1.one')[0]
    G2g = pr.let('g2.one')[0]
    PP = pr.let('g1.add', P, P2)[0]
    QQ = pr.let('g2.add', Q, Q2)[0]
    O1 = gen.identity(pr, rng, 1, rng.choice(gen.ID_REPS))
    O2 = gen.identity(pr, rng, 2, rng.choice(gen.ID_REPS))
    Pn = pr.let('g1.lit', rm.jac_lit(F1, rm.gmul(1, rng.randrange(1, r))))[0]
    Qn = pr.let('g2.lit', rm.jac_lit(F2, rm.gmul(2, rng.randrange(1, r))))[0]
    one = pr.let('gt.one')[0]
    idx = {}
    for e in ENTRY:
        d = {}
        for name, x, y in (('g0', G1g, G2g), ('v1', P, Q), ('v2', P2, Q), ('v3', P, Q2), ('v4', PP, Q), ('v5', P, QQ),
                           ('oq', O1, Qn), ('po', Pn, O2), ('oo', O1, O2)):
            d[name] = pr.let(e, x, y)
        # the same relations through the library's own Gt operations
        ab = h32(a * b % r)
        d['lp'] = pr.let('gt.pow', d['g0'][0], ab)
        d['lpeq'] = (None, pr.emit('_', 'gt.eq', d['lp'][0], d['v1'][0]))
        d['lm'] = pr.let('gt.mul', d['v1'][0], d['v2'][0])
        d['lmeq'] = (None, pr.emit('_', 'gt.eq', d['lm'][0], d['v4'][0]))
        d['lo1'] = pr.let('gt.pow', d['v1'][0], h32(r - 1))
        d['lo2'] = pr.let('gt.mul', d['lo1'][0], d['v1'][0])
        d['loeq'] = (None, pr.emit('_', 'gt.eq', d['lo2'][0], one))
        idx[e] = d
    ans = ctx.run(pr.lines)
    regvals = {}
    for i, an in enumerate(ans):
        if an.startswith('ok '):
            regvals['$' + pr.lines[i].split(' ', 1)[0]] = an[3:]
    # operand construction must have succeeded
    first_pair = min(d['g0'][1] for d in idx.values())
    for i in range(first_pair):
        if not ans[i].startswith('ok '):
            ctx.fail('setup', 'operand construction answered %r for %s' % (ans[i][:120], pr.lines[i][:160]), observed=ans[i], line=pr.lines[i])
            return
    ONE = rm.ONE
    for e in ENTRY:
        d = idx[e]
        vals = {}
        bad = False
        for name in ('g0', 'v1', 'v2', 'v3', 'v4', 'v5', 'oq', 'po', 'oo'):
            i = d[name][1]
            head, _, payload = ans[i].partition(' ')
            try:
                if head != 'ok':
                    raise ValueError('answer %r' % ans[i][:120])
                vals[name] = gt_parse(payload)
            except ValueError as ex:
                toks = pr.lines[i].split()
                ctx.fail(e, '%s (%s): %s; operands %s' % (e, name, ex, [regvals.get(t, t)[:50] for t in toks[2:]]), observed=ans[i], line=pr.lines[i],
                         operands=[regvals.get(t, t) for t in toks[2:]])
                bad = True
        if bad:
            continue

        def key(name):
            toks = pr.lines[d[name][1]].split()
            return (e, name) + tuple(regvals.get(t, t) for t in toks[2:])

        def rel(cls, ok, msg, names, nontriv=True):
            if ok:
                ctx.ok(e + '/' + cls, tuple(key(n) for n in names), nontriv)
            else:
                ops = {n: [regvals.get(t, t) for t in pr.lines[d[n][1]].split()[2:]] for n in names}
                ctx.fail(e, '%s: %s (a=%s a\'=%s b=%s b\'=%s, P %s, Q %s)' % (e, msg, h32(a)[:16] + '…', h32(a2)[:16] + '…', h32(b)[:16] + '…', h32(b2)[:16] + '…', lp, lq),
                         line=pr.lines[d[names[0]][1]], operands=ops, values={n: ans[d[n][1]][:80] for n in names})

        nt = a * b % r not in (0, 1)
        rel('power', vals['v1'] == rm.fpow(vals['g0'], a * b % r), 'e(aG, bH) != e(G, H)^(ab)', ['v1', 'g0'], nt)
        rel('add-left', vals['v4'] == rm.fmul(vals['v1'], vals['v2']), 'e(P+P\', Q) != e(P, Q) e(P\', Q)', ['v4', 'v1', 'v2'], nt)
        rel('add-right', vals['v5'] == rm.fmul(vals['v1'], vals['v3']), 'e(P, Q+Q\') != e(P, Q) e(P, Q\')', ['v5', 'v1', 'v3'], nt)
        rel('e(O,Q)', vals['oq'] == ONE, 'e(O, Q) != 1', ['oq'], False)
        rel('e(P,O)', vals['po'] == ONE, 'e(P, O) != 1', ['po'], False)
        rel('e(O,O)', vals['oo'] == ONE, 'e(O, O) != 1', ['oo'], False)
        rel('nondegenerate', vals['g0'] != ONE, 'e(G1, G2) = 1', ['g0'], False)
        rel('order-r', rm.fpow(vals['v1'], r) == ONE, 'g^(r-1) * g != 1 for a pairing value', ['v1'], nt)
        for lbl in (lp, lq):
            if lbl.startswith('identity-form') or lbl == 'zero-scalar':
                ctx.classes[e + '/' + lbl] += 1
        # library-side relations
        for cls, name, vname, want in (('lib-pow', 'lp', 'lpeq', rm.fpow(vals['g0'], a * b % r)), ('lib-mul', 'lm', 'lmeq', rm.fmul(vals['v1'], vals['v2'])),
                                       ('lib-order', 'lo2', 'loeq', ONE)):
            i = d[name][1]
            j = d[vname][1]
            good = ans[i] == 'ok ' + gt_hex(want) and ans[j] == 'bool true'
            if good:
                ctx.ok(e + '/' + cls, key(name), nt)
            else:
                ctx.fail(e + '|' + cls, '%s: Gt-level relation %s fails: %r / %r' % (e, cls, ans[i][:80], ans[j]), line=pr.lines[i], observed=ans[i])
    ctx.sample('bilinearity', {'program': [l[:110] for l in pr.lines[:8]], 'answers': [x[:90] for x in ans[:8]]})
