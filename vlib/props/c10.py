"""C10  Point encodings round-trip and follow the SM9 byte formats."""
from .. import gen, rm
from ..rm import q, r, F1, F2

ID = 'C10'
PERTURB = (60, 400)      # cases re-run in the repeat / parallel perturbation passes (quick, thorough): decoders and square roots are cheap
EXES = ['release']
RULE = ('each case encodes P = [k]G and -P (so both parities of y occur) of G1 or G2, held in each representation (z=1, library '
        'Jacobian, lambda-rescaled), in the raw, 0x04-prefixed and 0x02/0x03-prefixed formats; the expected bytes are CONSTRUCTED by '
        'the model from the affine coordinates (big-endian, imaginary before real, prefix 0x02 | parity of y resp. of its real part) '
        'and compared byte for byte, then the bytes are decoded again and the result must denote P (model affine map) and == P. '
        'distinct = distinct (group, format, point, representation triple); non-trivial = every event (identity is excluded by contract)')

FMTS = ['slice', 'uncompressed', 'compressed']


def cases(tier, seed):
    n = 200 if tier == 'quick' else 15000
    return [(1 + (i % 2), i) for i in range(2 * n)]


def required(tier):
    req = []
    for which in (1, 2):
        for fm in FMTS:
            for rep in gen.REPS:
                req.append('g%d.to_%s/%s' % (which, fm, rep))
            req.append('g%d.from_%s' % (which, fm))
        req += ['g%d.parity/even' % which, 'g%d.parity/odd' % which, 'g%d.rep-independent' % which]
    req += ['g1.from_%s/directed' % fm for fm in FMTS]
    return req


def encode(which, P, fmt):
    F = F1 if which == 1 else F2
    raw = F.enc(P[0]) + F.enc(P[1])
    if fmt == 'slice':
        return raw
    if fmt == 'uncompressed':
        return '04' + raw
    y0 = P[1] if which == 1 else P[1][0]
    return ('02' if y0 % 2 == 0 else '03') + F.enc(P[0])


def run(ctx, spec):
    which, _i = spec
    rng = ctx.rng
    F = F1 if which == 1 else F2
    g = 'g%d' % which
    pr = gen.Prog()
    exp = {}
    for _ in range(2):
        k, kc = gen.scalar_r(rng)
        if k == 0:
            k = 1
        for kk in (k, (-k) % r):
            P = rm.gmul(which, kk)
            y0 = P[1] if which == 1 else P[1][0]
            ctx.classes['%s.parity/%s' % (g, 'even' if y0 % 2 == 0 else 'odd')] += 1
            regs = [(rep, gen.point(pr, rng, which, kk, rep)) for rep in gen.REPS]
            if rng.random() < 0.3:
                # history template: Fr::inverse of a scalar directly before encoding a representative whose z has the same internal limbs
                m = rng.getrandbits(250) | 1
                if which == 2:
                    # G2 inverts the norm z0^2 + 2 z1^2 of z in Fq: take z = (z0, 0) with z0^2 having the internal limbs m
                    while rm.fq_sqrt(rm.unmont(m, q)) is None:
                        m = rng.getrandbits(250) | 1
                lamz = rm.unmont(m, q) if which == 1 else (rm.fq_sqrt(rm.unmont(m, q)), 0)
                Z = pr.let(g + '.lit', rm.jac_lit(F, P, lamz))[0]
                fmt0 = rng.choice(FMTS)
                pr.emit('_', 'fr.inverse', rm.h32(rm.unmont(m, r)))
                i = pr.emit('_', '%s.to_%s' % (g, fmt0), Z)
                exp[i] = ('%s.to_%s/scaled' % (g, fmt0), 'bytes ' + encode(which, P, fmt0), (which, fmt0, kk, 'alias'))
                ctx.count('cross-type-alias-template')
            for fmt in FMTS:
                want = encode(which, P, fmt)
                for rep, reg in regs:
                    i = pr.emit('_', '%s.to_%s' % (g, fmt), reg)
                    exp[i] = ('%s.to_%s/%s' % (g, fmt, rep), 'bytes ' + want, (which, fmt, kk, rep))
                ctx.classes['%s.rep-independent' % g] += 1
                d, i = pr.let('%s.from_%s' % (g, fmt), want)
                exp[i] = ('%s.from_%s' % (g, fmt), ('point', P), (which, 'dec', fmt, kk))
                i = pr.emit('_', g + '.eq', d, regs[rng.randrange(3)][1])
                exp[i] = ('%s.from_%s' % (g, fmt), 'bool true', (which, 'deceq', fmt, kk))
    if which == 1:
        # coordinate-directed points of G1 (cofactor 1: every curve point is in the group): x or y taken from the limb-boundary /
        # near-q / Montgomery-targeted classes, so that range checks and comparisons inside the codecs see boundary coordinates
        from .. import points
        T = None
        for _ in range(6):
            v, vc = gen.field_value(rng, q)
            if rng.random() < 0.6:
                T = points.lift_x(1, v, want_even=rng.random() < 0.5)
                what = 'x'
            else:
                x = rm.fq_cuberoot((v * v - 5) % q)
                T = (x, v) if x is not None else None
                what = 'y'
            if T is not None:
                break
        if T is not None:
            assert rm.oncurve(F1, T)
            k1 = rng.randrange(1, r)
            A = rm.gmul(1, k1)
            B = rm.cadd(F1, T, rm.cneg(F1, A))
            regs = [('aff', pr.let('g1.lit', rm.jac_lit(F1, T))[0]), ('scaled', pr.let('g1.lit', rm.jac_lit(F1, T, gen.lam_for(rng, 1)))[0])]
            if B is not None:
                regs.append(('jac', pr.let('g1.add', pr.let('g1.lit', rm.jac_lit(F1, A))[0], pr.let('g1.lit', rm.jac_lit(F1, B, gen.lam_for(rng, 1)))[0])[0]))
            ctx.count('directed-coordinate:%s/%s' % (what, vc))
            for fmt in FMTS:
                want = encode(1, T, fmt)
                for rep, reg in regs:
                    i = pr.emit('_', 'g1.to_%s' % fmt, reg)
                    exp[i] = ('g1.to_%s/%s' % (fmt, rep), 'bytes ' + want, (1, fmt, T[0], rep))
                d, i = pr.let('g1.from_%s' % fmt, want)
                exp[i] = ('g1.from_%s/directed' % fmt, ('point', T), (1, 'dec', fmt, T[0]))
                i = pr.emit('_', 'g1.eq', d, regs[rng.randrange(len(regs))][1])
                exp[i] = ('g1.from_%s/directed' % fmt, 'bool true', (1, 'deceq', fmt, T[0]))
    ans = ctx.run(pr.lines)
    regvals = {}
    for i, an in enumerate(ans):
        if an.startswith('ok '):
            regvals['$' + pr.lines[i].split(' ', 1)[0]] = an[3:]
        if i not in exp:
            if not an.startswith('ok '):
                ctx.fail('setup', 'operand construction answered %r for %s' % (an[:120], pr.lines[i][:160]), observed=an, line=pr.lines[i])
                return
            continue
        cls, want, key = exp[i]
        toks = pr.lines[i].split()
        sig = toks[1]
        key = key + tuple(regvals.get(t, t) for t in toks[2:])
        if isinstance(want, tuple):
            head, _, payload = an.partition(' ')
            good = False
            if head == 'ok':
                try:
                    good = rm.jac_affine(F, rm.jac_parse(F, payload)) == want[1]
                except Exception:
                    good = False
            if good:
                ctx.ok(cls, key)
            else:
                ctx.fail(sig, '%s: decoding the standard encoding gave %r' % (cls, an[:120]), observed=an, line=pr.lines[i])
        elif an == want:
            ctx.ok(cls, key)
        else:
            ctx.fail(sig, '%s: observed %r, the SM9 format of the point is %r (operand %s)' % (
                cls, an[:140], want[:140], [regvals.get(t, t)[:48] for t in toks[2:]]), observed=an, expected=want, line=pr.lines[i])
    ctx.sample(g, {'program': [l[:110] for l in pr.lines[-4:]], 'answers': [a[:110] for a in ans[-4:]]})
