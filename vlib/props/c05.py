"""C05  Scalar multiplication is the Z_r-module action on G1 and G2."""
from .. import gen, rm, points
from ..rm import q, r, F1, F2, h32

ID = 'C05'
EXES = ['release']
RULE = ('each event is P*k or k*P for P = [d]G in one of the representations (z=1, library Jacobian, lambda-rescaled, the three '
        'identity forms) or a point given only by its coordinates (G1: arbitrary curve point), k from scalar classes (0, 1, 2, r-1, r-2, '
        '(r+-1)/2, 2^i, 2^i-1, long runs, sparse, limb patterns, small, uniform); the returned triple is judged by the model: '
        'coordinates < q, on the curve, affine image equal to plain double-and-add over affine arithmetic. Derived laws '
        '(a+b)P = aP+bP, (ab)P = a(bP), 0P = O, 1P = P, (r-1)P = -P and [r-1]G + G = O with G != O are evaluated by the library and '
        'each side judged against the model. distinct = distinct (group, point triple, scalar); non-trivial = k not in {0,1} and P != O')


def cases(tier, seed):
    out = []
    n = 400 if tier == 'quick' else 15000
    for i in range(n):
        for which in (1, 2):
            out.append((which, 'mix', i))
    for which in (1, 2):
        out.append((which, 'order', 0))
        bits = range(0, 256, 16) if tier == 'quick' else range(256)
        for i0 in bits:
            out.append((which, 'pow2', i0))
    return out


def required(tier):
    req = []
    for which in (1, 2):
        req += ['g%d.mul/%s' % (which, rep) for rep in gen.REPS + ['id-' + i for i in gen.ID_REPS] + ['outside']]
        req += ['g%d.rmul' % which, 'g%d.rmul/identity' % which, 'g%d.law/distrib' % which, 'g%d.law/compat' % which, 'g%d.law/zero' % which, 'g%d.law/one' % which,
                'g%d.law/r-1' % which, 'g%d.order' % which, 'g%d.mul/pow2' % which]
    return req


def judge(ctx, which, an, want, cls, key, nontriv, line):
    F = F1 if which == 1 else F2
    head, _, payload = an.partition(' ')
    sig = 'g%d.mul' % which
    if head != 'ok':
        ctx.fail(sig, '%s: %r for %s' % (cls, an[:120], line[:160]), observed=an, line=line)
        return False
    try:
        xyz = rm.jac_parse(F, payload)
    except Exception:
        ctx.fail(sig, '%s: unparsable %r' % (cls, an[:100]), observed=an, line=line)
        return False
    flat = xyz if which == 1 else [c for v in xyz for c in v]
    if any(c >= q for c in flat):
        ctx.fail(sig, '%s: coordinate not below q' % cls, observed=an, line=line)
        return False
    if xyz[2] != F.zero and not rm.jac_oncurve(F, xyz):
        ctx.fail(sig, '%s: returned triple is not on the curve (%s)' % (cls, line[:120]), observed=an, line=line)
        return False
    got = rm.jac_affine(F, xyz)
    if got != want:
        ctx.fail(sig, '%s: denotes %s, double-and-add gives %s (%s)' % (cls, repr(got)[:70], repr(want)[:70], line[:200]),
                 observed=an, expected=repr(want), line=line)
        return False
    ctx.ok(cls, key, nontriv)
    return True


def run(ctx, spec):
    which, kind, i0 = spec
    rng = ctx.rng
    F = F1 if which == 1 else F2
    g = 'g%d' % which
    pr = gen.Prog()
    exp = {}

    def mul(Preg, Pval, k, cls, rmul=False):
        kl = h32(k)
        reg, i = pr.let(g + ('.rmul' if rmul else '.mul'), *((kl, Preg) if rmul else (Preg, kl)))
        want = rm.cmul(F, k, Pval) if Pval is not None and not isinstance(Pval, int) else None
        exp[i] = (cls, want, (which, 'mul', cls.split('/')[-1], k), k > 1 and Pval is not None)
        return reg, i

    if kind == 'mix':
        for _ in range(4):
            d = gen.dlog(rng)
            rep = rng.choice(gen.REPS)
            P = rm.gmul(which, d)
            Preg = gen.point(pr, rng, which, d, rep)
            k, kc = gen.scalar_r(rng)
            reg, i = pr.let(g + '.mul', Preg, h32(k))
            exp[i] = ('%s.mul/%s' % (g, rep), rm.gmul(which, k * d), (which, d, rep, k), k > 1)
            ctx.count('scalar:' + kc)
            reg, i = pr.let(g + '.rmul', h32(k), Preg)
            exp[i] = ('%s.rmul' % g, rm.gmul(which, k * d), (which, 'r', d, rep, k), k > 1)
        # identity in every form
        idr = rng.choice(gen.ID_REPS)
        O = gen.identity(pr, rng, which, idr)
        k, _c = gen.scalar_r(rng)
        reg, i = pr.let(g + '.mul', O, h32(k))
        exp[i] = ('%s.mul/id-%s' % (g, idr), None, (which, 'id', idr, k), False)
        reg, i = pr.let(g + '.rmul', h32(k), O)
        exp[i] = ('%s.rmul/identity' % g, None, (which, 'rid', idr, k), False)
        # arbitrary curve point (outside the subgroup for G2)
        T = points.rand_curve_point(rng, 1) if which == 1 else rm.gmul(2, rng.randrange(1, r))   # G2: the property covers the subgroup only
        if which == 1 and rng.random() < 0.5:
            got = points.directed_g1_point(rng)      # x^2 / y^2 / y^4 at a small-multiple boundary: stresses the first doubling of the ladder
            if got:
                T = got[0]
        k = rng.choice([0, 1, 2, 3, r - 1, rng.randrange(1 << 16), rng.randrange(r)])
        Treg = pr.let(g + '.lit', rm.jac_lit(F, T, gen.lam_for(rng, which) if rng.random() < 0.5 else None))[0]
        reg, i = pr.let(g + '.mul', Treg, h32(k))
        exp[i] = ('%s.mul/outside' % g, rm.cmul(F, k, T), (which, 'out', T[0], k), k > 1)
        # derived laws
        d = gen.dlog(rng)
        rep = rng.choice(gen.REPS)
        Preg = gen.point(pr, rng, which, d, rep)
        a, _c = gen.scalar_r(rng)
        b, _c = gen.scalar_r(rng)
        s_, i = pr.let('fr.add.vv', h32(a), h32(b))
        exp[i] = ('fr', 'ok ' + h32((a + b) % r))
        l_, i = pr.let(g + '.mul', Preg, s_)
        exp[i] = ('%s.law/distrib' % g, rm.gmul(which, (a + b) * d), (which, 'dl', d, a, b), True)
        pa, i = pr.let(g + '.mul', Preg, h32(a))
        exp[i] = ('%s.mul/%s' % (g, rep), rm.gmul(which, a * d), (which, d, rep, a), a > 1)
        pb, i = pr.let(g + '.mul', Preg, h32(b))
        exp[i] = ('%s.mul/%s' % (g, rep), rm.gmul(which, b * d), (which, d, rep, b), b > 1)
        r_, i = pr.let(g + '.add', pa, pb)
        exp[i] = ('%s.law/distrib' % g, rm.gmul(which, (a + b) * d), (which, 'dr', d, a, b), True)
        m_, i = pr.let('fr.mul.vv', h32(a), h32(b))
        exp[i] = ('fr', 'ok ' + h32(a * b % r))
        l2, i = pr.let(g + '.mul', Preg, m_)
        exp[i] = ('%s.law/compat' % g, rm.gmul(which, a * b * d), (which, 'cl', d, a, b), True)
        r2, i = pr.let(g + '.mul', pb, h32(a))
        exp[i] = ('%s.law/compat' % g, rm.gmul(which, a * b * d), (which, 'cr', d, a, b), True)
        z_, i = pr.let(g + '.mul', Preg, h32(0))
        exp[i] = ('%s.law/zero' % g, None, (which, 'z', d, rep), True)
        o_, i = pr.let(g + '.mul', Preg, h32(1))
        exp[i] = ('%s.law/one' % g, rm.gmul(which, d), (which, 'o', d, rep), True)
        n_, i = pr.let(g + '.mul', Preg, h32(r - 1))
        exp[i] = ('%s.law/r-1' % g, rm.gmul(which, -d), (which, 'n', d, rep), True)
    elif kind == 'order':
        G, i = pr.let(g + '.one')
        exp[i] = ('%s.order' % g, rm.gmul(which, 1), (which, 'gen'), True)
        i = pr.emit('_', g + '.is_zero', G)
        exp[i] = ('%s.order' % g, 'bool false')
        m, i = pr.let(g + '.mul', G, h32(r - 1))
        exp[i] = ('%s.order' % g, rm.gmul(which, r - 1), (which, 'r-1'), True)
        s_, i = pr.let(g + '.add', m, G)
        exp[i] = ('%s.order' % g, None, (which, 'r'), True)
        i = pr.emit('_', g + '.is_zero', s_)
        exp[i] = ('%s.order' % g, 'bool true')
    else:
        step = 16 if ctx.tier == 'quick' else 1
        for j in range(i0, min(256, i0 + step)):
            d = rng.randrange(1, r)
            rep = rng.choice(gen.REPS)
            Preg = gen.point(pr, rng, which, d, rep)
            for k in ((1 << j) % r, ((1 << j) - 1) % r):
                reg, i = pr.let(g + '.mul', Preg, h32(k))
                exp[i] = ('%s.mul/pow2' % g, rm.gmul(which, k * d), (which, 'p2', d, k), k > 1)
    ans = ctx.run(pr.lines)
    for i, an in enumerate(ans):
        if i not in exp:
            if not an.startswith('ok '):
                ctx.fail('setup', 'operand construction answered %r for %s' % (an[:120], pr.lines[i][:160]), observed=an, line=pr.lines[i])
                return
            continue
        e = exp[i]
        if len(e) == 2:
            if an == e[1]:
                ctx.ok(e[0], None, False)
            else:
                ctx.fail(e[0], '%s: observed %r, model expects %r (%s)' % (e[0], an[:100], e[1][:100], pr.lines[i][:160]), observed=an, line=pr.lines[i])
            continue
        cls, want, key, nontriv = e
        judge(ctx, which, an, want, cls, key, nontriv, pr.lines[i])
    ctx.sample('%s/%s' % (g, kind), {'program': [l[:110] for l in pr.lines[:5]], 'answers': [a[:110] for a in ans[:5]]})
