"""C07  Field elements always stay canonical; equality is value equality (and every later operation terminates)."""
from .. import gen, mon, rm
from ..mon import f2hex, hex_f2
from ..rm import q, r, R, h32, f2add, f2sub, f2mul, f2neg

ID = 'C07'
EXES = ['release']
RULE = ('each case is a random history (straight-line program) over a register file of Fr, Fq and Fq2 values using every public '
        'producer: constructors, from_slice of any length, TryFrom, interpret, from_str, from_hash, random fed by scripted RNG '
        'streams (constants, counters, exact multiples of the modulus), all operator forms, pow, inverse, sqrt, set_bit 0..=300, '
        'real/imaginary/new. The generator is blind; the monitor replays the history in the model (ints mod p) and after every '
        'producing call judges: the answer, to_slice (< p and equal to the tracked value), is_zero, x == from_slice(to_slice(x)), '
        '== against another register (must equal value equality) and, through the cfg hook, the raw limbs (= value*2^256 mod p, '
        'hence < p). Values of random() and the sign of sqrt() are adopted from the observation after the canonicity checks. '
        'A call that does not return is reported by the runner (watchdog + solo re-run). '
        'distinct = distinct (op, operand values); non-trivial = the produced value is not 0 or 1')
ASSUMPTIONS = ['raw limbs are read through sm9_core::verif_hooks::{fr_limbs,fq_limbs} (cfg john_yu_sm9_core_verif)']
FORMS = ['vv', 'rv', 'vr', 'rr', 'av', 'ar']
P = {'fr': r, 'fq': q}
HOOK_CLASSES = ('check.fr.raw', 'check.fq.raw', 'check.fq2.raw')
NREG = {'fr': 5, 'fq': 5, 'fq2': 4}


def cases(tier, seed):
    n = 3000 if tier == 'quick' else 250000
    return [('hist', 40 + (i % 5) * 20) for i in range(n)]


def required(tier):
    req = []
    for f in ('fr', 'fq'):
        req += ['%s.%s' % (f, o) for o in ('lit', 'from_slice', 'try_from', 'interpret', 'from_str', 'add', 'sub', 'mul', 'neg',
                                           'pow', 'inverse', 'zero', 'one')]
        req += ['check.%s.to_slice' % f, 'check.%s.is_zero' % f, 'check.%s.rt_eq' % f, 'check.%s.raw' % f, 'check.%s.eq/true' % f,
                'check.%s.eq/false' % f]
    req += ['fr.random', 'fr.random/multiple-of-p', 'fr.from_hash', 'fr.set_bit', 'fq.sqrt', 'fq.real', 'fq.imaginary', 'fq2.new', 'fq2.from_slice', 'fq2.add', 'fq2.sub',
            'fq2.mul', 'fq2.neg', 'fq2.sqrt', 'check.fq2.to_slice', 'check.fq2.is_zero', 'check.fq2.rt_eq', 'check.fq2.eq/true',
            'check.fq2.eq/false', 'check.fq2.raw']
    return req


def rng_spec(rng, p):
    """(spec words, predicted 512-bit draw assuming little-endian limb order, class)"""
    k = rng.randrange(8)
    M = (1 << 64) - 1
    if k == 0:
        words = [0]
    elif k == 1:
        words = [M]
    elif k == 2:
        words = [1 << 63]
    elif k == 3:
        words = list(range(1, 9))
    elif k in (4, 5):
        mult = rng.choice([1, 2, (1 << 256) + 1, rng.randrange(1, 1 << 256), ((1 << 512) - 1) // p])
        v = mult * p + rng.choice([0, 0, 1, -1])
        v %= 1 << 512
        words = [(v >> (64 * i)) & M for i in range(8)]
    else:
        words = [rng.getrandbits(64) for _ in range(8)]
    draw = sum(words[i % len(words)] << (64 * i) for i in range(8))
    return ','.join('%x' % w for w in words), draw, ('multiple-of-p' if draw % p == 0 else 'other')


def gen_program(rng, steps):
    """blind generator: returns list of (line, meta) — meta tells the monitor how to judge"""
    out = []
    regs = {'fr': ['a%d' % i for i in range(NREG['fr'])], 'fq': ['b%d' % i for i in range(NREG['fq'])],
            'fq2': ['c%d' % i for i in range(NREG['fq2'])]}

    def emit(dst, op, *args, **meta):
        out.append(('%s %s %s' % (dst, op, ' '.join(str(a) for a in args)), dict(meta, dst=dst, op=op, args=args)))

    def checks(f, d):
        emit('_', f + '.to_slice', '$' + d, kind='check')
        emit('_', f + '.is_zero', '$' + d, kind='check')
        emit('_', f + '.rt_eq', '$' + d, kind='check')
        if f != 'fq2':
            emit('_', f + '.raw', '$' + d, kind='check')
        elif rng.random() < 0.5:
            emit('t', 'fq2.real' if rng.random() < 0.5 else 'fq2.imaginary', '$' + d, kind='produce', f='fq', quiet=True)
            emit('_', 'fq.raw', '$t', kind='check', alias='check.fq2.raw')
        o = rng.choice(regs[f])
        emit('_', f + '.eq', '$' + d, '$' + o, kind='check')

    def produce(f, d):
        p = P.get(f)
        src = lambda: '$' + rng.choice(regs[f])
        if f in ('fr', 'fq'):
            k = rng.randrange(24)
            if k == 0:
                emit(d, f + '.zero', kind='produce', f=f)
            elif k == 1:
                emit(d, f + '.one', kind='produce', f=f)
            elif k == 2:
                emit(d, f + '.lit', h32(gen.field_value(rng, p)[0]), kind='produce', f=f)
            elif k in (3, 4):
                L = rng.choice([1, 2, 31, 32, 32, 32, 33, 48, 63, 64, 64, rng.randrange(1, 65)])
                from .c13 import bytes_for
                b, _ = bytes_for(rng, L, [p, r - 1])
                emit(d, f + ('.from_slice' if k == 3 else '.try_from'), b.hex(), kind='produce', f=f)
            elif k == 5:
                from .c13 import bytes_for
                b, _ = bytes_for(rng, 64, [p])
                emit(d, f + '.interpret', b.hex(), kind='produce', f=f)
            elif k == 6:
                s = str(rng.choice([rng.randrange(p), p, p - 1, 2 * p, rng.randrange(1 << 512), 0, 10 ** 80]))
                emit(d, f + '.from_str', s.encode().hex(), kind='produce', f=f)
            elif k == 7 and f == 'fr':
                spec, draw, cls = rng_spec(rng, p)
                emit(d, f + '.random', spec, kind='produce', f=f, draw=draw, rcls=cls)
            elif k in (8, 9, 10, 11, 12, 13):
                op = ('add', 'sub', 'mul')[k % 3]
                emit(d, '%s.%s.%s' % (f, op, rng.choice(FORMS)), src(), src(), kind='produce', f=f)
            elif k == 14:
                emit(d, '%s.neg.%s' % (f, rng.choice('vr')), src(), kind='produce', f=f)
            elif k == 15:
                emit(d, f + '.pow', src(), src(), kind='produce', f=f)
            elif k in (16, 17):
                emit(d, f + '.inverse', src(), kind='produce', f=f)
            elif k == 18:
                # alias: d = (s + t) - t must equal s
                s_, t_ = src(), src()
                emit(d, '%s.add.%s' % (f, rng.choice(FORMS)), s_, t_, kind='produce', f=f)
                checks(f, d)
                emit(d, '%s.sub.%s' % (f, rng.choice(FORMS)), '$' + d, t_, kind='produce', f=f)
                emit('_', f + '.eq', '$' + d, s_, kind='check')
            elif k == 19:
                # alias: d = -(-s), and s * 1
                s_ = src()
                emit(d, '%s.neg.v' % f, s_, kind='produce', f=f)
                emit(d, '%s.neg.r' % f, '$' + d, kind='produce', f=f)
                emit('_', f + '.eq', s_, '$' + d, kind='check')
            elif f == 'fr' and k in (20, 21):
                if k == 20:
                    from .c13 import bytes_for
                    b, _ = bytes_for(rng, rng.choice([0, 1, 32, 40, 40, 64, rng.randrange(0, 65)]), [r - 1, r])
                    emit(d, 'fr.from_hash', b.hex() or '-', kind='produce', f=f)
                else:
                    emit(d, 'fr.set_bit', src(), rng.choice([0, 1, 63, 64, 128, 254, 255, 255, rng.randrange(256), rng.randrange(301)]),
                         rng.randrange(2), kind='produce', f=f)
            elif f == 'fr' and k == 22:
                # drive a register towards r bit by bit: set every bit of r that is still clear
                s_ = src()
                emit(d, 'fr.add.vv', s_, h32(0), kind='produce', f=f)
                for i in rng.sample(range(256), 12):
                    emit(d, 'fr.set_bit', '$' + d, i, (r >> i) & 1, kind='produce', f=f)
            elif f == 'fq' and k in (20, 21):
                emit(d, 'fq.sqrt', src(), kind='produce', f=f)
            elif f == 'fq' and k == 22:
                emit(d, rng.choice(['fq2.real', 'fq2.imaginary']), '$' + rng.choice(regs['fq2']), kind='produce', f=f)
            else:
                emit(d, '%s.mul.%s' % (f, rng.choice(FORMS)), src(), src(), kind='produce', f=f)
        else:
            k = rng.randrange(12)
            if k == 0:
                emit(d, rng.choice(['fq2.zero', 'fq2.one']), kind='produce', f=f)
            elif k == 1:
                emit(d, 'fq2.new', '$' + rng.choice(regs['fq']), '$' + rng.choice(regs['fq']), kind='produce', f=f)
            elif k == 2:
                x = gen.fq2_value(rng)[0]
                b = bytes.fromhex(f2hex(x))
                kk = rng.randrange(6)
                if kk == 0:
                    b = b[:rng.choice([0, 32, 63])]
                elif kk == 1:
                    b = rng.choice([q, q + 1, (1 << 256) - 1]).to_bytes(32, 'big') + b[32:]
                elif kk == 2:
                    b = b[:32] + rng.choice([q, q + 1, (1 << 256) - 1]).to_bytes(32, 'big')
                emit(d, rng.choice(['fq2.from_slice', 'fq2.try_from']), b.hex() or '-', kind='produce', f=f)
            elif k in (3, 4, 5, 6, 7):
                op = ('add', 'sub', 'mul', 'mul', 'mul')[k - 3]
                emit(d, 'fq2.%s.%s' % (op, rng.choice(FORMS)), src(), src(), kind='produce', f=f)
            elif k == 8:
                emit(d, 'fq2.neg.%s' % rng.choice('vr'), src(), kind='produce', f=f)
            elif k == 9:
                emit(d, 'fq2.sqrt', src(), kind='produce', f=f)
            elif k == 10:
                s_, t_ = src(), src()
                emit(d, 'fq2.add.%s' % rng.choice(FORMS), s_, t_, kind='produce', f=f)
                emit(d, 'fq2.sub.%s' % rng.choice(FORMS), '$' + d, t_, kind='produce', f=f)
                emit('_', 'fq2.eq', '$' + d, s_, kind='check')
            else:
                emit(d, 'fq2.lit', f2hex(gen.fq2_value(rng)[0]), kind='produce', f=f)
        checks(f, d)

    # initial definitions
    for f in ('fr', 'fq'):
        for d in regs[f]:
            emit(d, f + '.lit', h32(gen.field_value(rng, P[f])[0]), kind='produce', f=f)
    for d in regs['fq2']:
        emit(d, 'fq2.lit', f2hex(gen.fq2_value(rng)[0]), kind='produce', f='fq2')
    for _ in range(steps):
        if rng.random() < 0.06:
            # cross-type aliasing: consecutive calls on an Fr and an Fq value whose INTERNAL (Montgomery) limbs are identical -
            # a cache or memo keyed on the raw limbs without the modulus would confuse them
            m = gen.limb_value(rng, r) if rng.random() < 0.5 else rng.getrandbits(255)
            m %= r
            m = m or 1
            op = rng.choice(['inverse', 'inverse', 'pow2', 'neg'])
            order = [('fr', rm.unmont(m, r)), ('fq', rm.unmont(m, q))]
            if rng.random() < 0.5:
                order.reverse()
            for f2, v in order:
                d2 = rng.choice(regs[f2])
                if op == 'inverse':
                    emit(d2, f2 + '.inverse', h32(v), kind='produce', f=f2)
                elif op == 'pow2':
                    emit(d2, f2 + '.pow', h32(v), h32(2), kind='produce', f=f2)
                else:
                    emit(d2, f2 + '.neg.v', h32(v), kind='produce', f=f2)
                checks(f2, d2)
            continue
        f = rng.choice(['fr', 'fr', 'fq', 'fq', 'fq2'])
        produce(f, rng.choice(regs[f]))
    return out


def enc(f, v):
    return f2hex(v) if f == 'fq2' else h32(v)


def model(regs, meta, observed):
    """expected answer for one line given the tracked register values.
    Returns (want, newvalue) where want is an exact string, or ('adopt', checker) for values adopted from the observation."""
    op, args = meta['op'], meta['args']

    def val(tok, f):
        tok = str(tok)
        if tok.startswith('$'):
            v = regs.get(tok[1:])
            if v is None or v[0] != f:
                raise KeyError(tok[1:])
            return v[1]
        return hex_f2(tok) if f == 'fq2' else int(tok, 16)

    ns, _, rest = op.partition('.')
    base = rest.split('.')[0]
    if ns in ('fr', 'fq'):
        p = P[ns]
        if base in ('zero', 'one'):
            return ('v', ns, 0 if base == 'zero' else 1)
        if base == 'lit':
            return ('v', ns, val(args[0], ns))
        if base in ('from_slice', 'try_from', 'interpret'):
            b = bytes.fromhex(args[0]) if args[0] != '-' else b''
            if 1 <= len(b) <= 64:
                return ('v', ns, int.from_bytes(b, 'big') % p)
            return ('none',) if base == 'from_slice' else ('err',)
        if base == 'from_str':
            return ('v', ns, int(bytes.fromhex(args[0]).decode()) % p)
        if base == 'from_hash':
            b = bytes.fromhex(args[0]) if args[0] != '-' else b''
            return ('v', ns, int.from_bytes(b, 'big') % (r - 1) + 1) if len(b) <= 64 else ('none',)
        if base == 'random':
            return ('adopt', ns, None)
        if base in ('add', 'sub', 'mul'):
            a, b = val(args[0], ns), val(args[1], ns)
            return ('v', ns, (a + b) % p if base == 'add' else (a - b) % p if base == 'sub' else a * b % p)
        if base == 'neg':
            return ('v', ns, (-val(args[0], ns)) % p)
        if base == 'pow':
            return ('v', ns, pow(val(args[0], ns), val(args[1], ns), p))
        if base == 'inverse':
            a = val(args[0], ns)
            return ('none',) if a == 0 else ('v', ns, pow(a, -1, p))
        if base == 'set_bit':
            a, i, b = val(args[0], ns), int(args[1]), int(args[2])
            if i >= 256:
                return ('adopt', ns, None)
            return ('v', ns, ((a | (1 << i)) if b else (a & ~(1 << i))) % p)
        if base == 'sqrt':
            a = val(args[0], ns)
            if not rm.fq_issq(a):
                return ('none',)
            return ('adopt', ns, lambda s: s * s % q == a)
        if base == 'to_slice':
            return ('s', 'bytes ' + h32(val(args[0], ns)))
        if base == 'is_zero':
            return ('s', 'bool ' + str(val(args[0], ns) == 0).lower())
        if base == 'rt_eq':
            val(args[0], ns)
            return ('s', 'bool true')
        if base == 'raw':
            return ('s', 'bytes ' + h32(val(args[0], ns) * R % p))
        if base == 'eq':
            return ('s', 'bool ' + str(val(args[0], ns) == val(args[1], ns)).lower())
    if ns == 'fq2':
        if base in ('zero', 'one'):
            return ('v', 'fq2', (0, 0) if base == 'zero' else (1, 0))
        if base == 'lit':
            return ('v', 'fq2', val(args[0], 'fq2'))
        if base == 'new':
            return ('v', 'fq2', (val(args[0], 'fq'), val(args[1], 'fq')))
        if base in ('real', 'imaginary'):
            x = val(args[0], 'fq2')
            return ('v', 'fq', x[0] if base == 'real' else x[1])
        if base in ('from_slice', 'try_from'):
            b = bytes.fromhex(args[0]) if args[0] != '-' else b''
            if len(b) == 64:
                c1, c0 = int.from_bytes(b[:32], 'big'), int.from_bytes(b[32:], 'big')
                if c0 < q and c1 < q:
                    return ('v', 'fq2', (c0, c1))
            return ('none',) if base == 'from_slice' else ('err',)
        if base in ('add', 'sub', 'mul'):
            a, b = val(args[0], 'fq2'), val(args[1], 'fq2')
            return ('v', 'fq2', f2add(a, b) if base == 'add' else f2sub(a, b) if base == 'sub' else f2mul(a, b))
        if base == 'neg':
            return ('v', 'fq2', f2neg(val(args[0], 'fq2')))
        if base == 'sqrt':
            a = val(args[0], 'fq2')
            if not rm.f2issq(a):
                return ('none',)
            return ('adopt', 'fq2', lambda s: f2mul(s, s) == a)
        if base == 'to_slice':
            return ('s', 'bytes ' + f2hex(val(args[0], 'fq2')))
        if base == 'is_zero':
            return ('s', 'bool ' + str(val(args[0], 'fq2') == (0, 0)).lower())
        if base == 'rt_eq':
            val(args[0], 'fq2')
            return ('s', 'bool true')
        if base == 'eq':
            return ('s', 'bool ' + str(val(args[0], 'fq2') == val(args[1], 'fq2')).lower())
    raise ValueError('model has no rule for ' + op)


def run(ctx, spec):
    rng = ctx.rng
    prog = gen_program(rng, spec[1])
    lines = [l for l, _ in prog]
    ans = ctx.run(lines)
    regs = {}
    for (line, meta), an in zip(prog, ans):
        op, dst = meta['op'], meta['dst']
        ns, _, rest = op.partition('.')
        base = rest.split('.')[0]
        cls = meta.get('alias') or (('check.%s.%s' % (ns, base)) if meta['kind'] == 'check' else '%s.%s' % (meta.get('f', ns) if base in ('real', 'imaginary') else ns, base))
        try:
            m = model(regs, meta, an)
        except KeyError as e:
            # a source register is undefined in the model (an earlier call legitimately returned None/Err)
            if an.startswith('bad noreg'):
                ctx.count('undefined-source')
                continue
            ctx.fail(cls, 'register %s should be undefined here but the call answered %r (%s)' % (e, an[:100], line[:160]), observed=an, line=line)
            return
        head, _, payload = an.partition(' ')
        if m[0] == 's':
            if base == 'raw' and mon.hook_unavailable(ctx, an):
                continue
            if an == m[1]:
                if base == 'eq':
                    cls += '/' + payload
                ctx.ok(cls, (op, line.split(' ', 2)[2]) if False else None, False)
            else:
                ctx.fail(cls, '%s: observed %r, model expects %r (%s)' % (cls, an[:120], m[1][:120], line[:200]), observed=an, expected=m[1], line=line)
                return
            continue
        f = m[1] if len(m) > 1 else None
        if m[0] == 'none' or m[0] == 'err':
            if head == m[0]:
                ctx.ok(cls + '/' + m[0], None, False)
                continue
            ctx.fail(cls, '%s: observed %r, model expects %s (%s)' % (cls, an[:120], m[0], line[:200]), observed=an, expected=m[0], line=line)
            return
        if head != 'ok':
            ctx.fail(cls, '%s: observed %r, model expects a value (%s)' % (cls, an[:120], line[:200]), observed=an, line=line)
            return
        try:
            got = hex_f2(payload) if f == 'fq2' else int(payload, 16)
        except ValueError:
            ctx.fail(cls, '%s: unparsable answer %r' % (cls, an[:120]), observed=an, line=line)
            return
        p = q if f in ('fq', 'fq2') else r
        comps = got if f == 'fq2' else (got,)
        if any(c >= p for c in comps):
            ctx.fail(cls, '%s produced an encoding that is not below the modulus: %r (%s)' % (cls, an[:140], line[:200]), observed=an, line=line)
            return
        if m[0] == 'v':
            if got != m[2]:
                ctx.fail(cls, '%s: observed %r, model expects %s (%s)' % (cls, an[:140], enc(f, m[2]), line[:200]), observed=an, expected=enc(f, m[2]), line=line)
                return
            value = m[2]
        else:  # adopt
            if m[2] is not None and not m[2](got):
                ctx.fail(cls, '%s: returned root does not square back (%s -> %r)' % (cls, line[:200], an[:140]), observed=an, line=line)
                return
            value = got
            if base == 'random':
                cls2 = '%s.random/%s' % (ns, meta['rcls'])
                ctx.classes[cls2] += 1
                ctx.count('random:draw*R^-1-prediction-' + ('matches' if rm.unmont(meta['draw'] % p, p) == got else 'differs'))
        if dst != '_':
            regs[dst] = (f, value)
        key = (op, tuple(str(a) if not str(a).startswith('$') else enc(regs[str(a)[1:]][0], regs[str(a)[1:]][1]) if str(a)[1:] in regs else '?' for a in meta['args']))
        ctx.ok(cls, key, value not in (0, 1, (0, 0), (1, 0)))
    ctx.sample('history', {'length': len(lines), 'head': [l[:120] for l in lines[14:22]], 'answers': [a[:120] for a in ans[14:22]]})
