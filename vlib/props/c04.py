"""C04  G1 and G2 addition, subtraction and negation implement the curve group law."""
from .. import gen, rm, points
from ..rm import q, r, F1, F2

ID = 'C04'
EXES = ['release']
RULE = ('each case fixes a group (G1/G2), a relation between A and B (independent, equal point in another representation, the same '
        'register, opposite, A or B the identity in one of its three forms) and a representation for each operand (z=1 from model '
        'coordinates, library Jacobian never normalised, lambda-rescaled); the library computes A+B, B+A, A-B, -A, (A+B)+C, A+(B+C), '
        'A+O, O+A and every returned Jacobian triple is judged by the model: coordinates < q, y^2 = x^3 + b z^6, and affine image '
        '(x/z^2, y/z^3 by the model\'s own inversion) equal to the affine chord-and-tangent result on the dlog-derived points. '
        'Also points given only by coordinates (G1: arbitrary curve points, the cofactor being 1; G2: subgroup points). '
        'Pairs of distinct points sharing their y-coordinate ((beta*x, y), beta^3 = 1) are a required class. distinct = distinct (group, op, operand triples); non-trivial = neither operand is the identity')

RELATIONS = ['indep', 'equal', 'samereg', 'opposite', 'idA', 'idB', 'outside', 'same-y', 'h-directed', 'coord-directed']
# a primitive cube root of unity of Fq: (beta*x, y) is another curve point with the SAME y (the adder's r = 0, h != 0 case)
BETA = next(b for b in (pow(g, (q - 1) // 3, q) for g in range(2, 50)) if b != 1)


def cases(tier, seed):
    out = []
    reps = 12 if tier == 'quick' else 400
    for _ in range(reps):
        for which in (1, 2):
            for rel in RELATIONS:
                for ra in gen.REPS:
                    for rb in gen.REPS:
                        if rel in ('idA', 'idB'):
                            for idr in gen.ID_REPS:
                                out.append((which, rel, ra, rb, idr))
                        else:
                            out.append((which, rel, ra, rb, ''))
                            out.append((which, rel, ra, rb, ''))
    return out


def required(tier):
    req = []
    for which in (1, 2):
        for rel in RELATIONS:
            if which == 2 and rel in ('h-directed', 'coord-directed'):
                continue        # the x-difference construction yields points outside the subgroup: G1 only
            for ra in gen.REPS:
                for rb in gen.REPS:
                    req.append('g%d/%s/%s-%s' % (which, rel, ra, rb))
        req += ['g%d/identity-form/%s' % (which, i) for i in gen.ID_REPS]
    return req


def run(ctx, spec):
    which, rel, ra, rb, idr = spec
    rng = ctx.rng
    F = F1 if which == 1 else F2
    g = 'g%d' % which
    pr = gen.Prog()
    exp = {}   # line index -> (label, expected affine point, nontrivial)

    def arb(P, rep):
        """a literal for an arbitrary curve point in the wanted representation"""
        if rep == 'aff':
            return pr.let(g + '.lit', rm.jac_lit(F, P))[0]
        if rep == 'scaled':
            return pr.let(g + '.lit', rm.jac_lit(F, P, gen.lam_for(rng, which)))[0]
        # jac: P = (P - S) + S computed by the library
        S = points.rand_curve_point(rng, 1) if which == 1 else rm.gmul(2, rng.randrange(1, r))
        D = rm.cadd(F, P, rm.cneg(F, S))
        a = pr.let(g + '.lit', rm.jac_lit(F, D))[0]
        b = pr.let(g + '.lit', rm.jac_lit(F, S, gen.lam_for(rng, which) if rng.random() < 0.5 else None))[0]
        return pr.let(g + '.add', a, b)[0]

    def curve_point():
        # G1 has cofactor 1, so every curve point is a group element; for G2 the property speaks of the order-r subgroup only
        return points.rand_curve_point(rng, 1) if which == 1 else rm.gmul(2, rng.randrange(1, r))

    if rel in ('h-directed', 'coord-directed') and which == 2:
        rel = 'outside'
    if rel == 'coord-directed':
        # a point whose x^2, y^2 or y^4 (the intermediate values of doubling) sits where 2x / 3x / 8x crosses a multiple of q or 2^256;
        # B is the same point (so that A+B doubles), C independent
        got = points.directed_g1_point(rng)
        PA = got[0] if got else points.rand_curve_point(rng, 1)
        PB = PA
        PC = points.rand_curve_point(rng, 1)
        A, B, C = arb(PA, ra), arb(PB, rb), arb(PC, rng.choice(gen.REPS))
        rel_done = True
    else:
        rel_done = False
    if rel_done:
        pass
    elif rel == 'h-directed':
        # two curve points whose x-difference h (squared by the adder with the dedicated squaring routine) is aimed at that routine:
        # Montgomery quotient digits 0 / 2^64-1 or an unreduced square accumulator on a boundary (G2: h real, so h^2 hits Fq squaring/mul)
        PA = PB = None
        for _ in range(200):
            PA = curve_point()
            got = gen.unreduced_square(rng, q) if rng.random() < 0.5 else (gen.mont_digit_square(rng, q), None)
            if not got:
                continue
            h = got[0] if rng.random() < 0.5 else (-got[0]) % q
            xb = (PA[0] + h) % q if which == 1 else ((PA[0][0] + h) % q, PA[0][1])
            PB = points.lift_x(which, xb)
            if PB is not None:
                break
        if PB is None:
            PB = curve_point()
        PC = curve_point()
        A, B, C = arb(PA, ra), arb(PB, rb), arb(PC, rng.choice(gen.REPS))
    elif rel in ('outside', 'same-y'):
        if rel == 'same-y' and rng.random() < 0.7:
            PA = rm.gmul(which, gen.scalar_r(rng)[0] or 1)
        else:
            PA = curve_point()
        PB = curve_point()
        k = rng.randrange(4)
        if rel == 'same-y':
            bk = BETA if rng.random() < 0.5 else BETA * BETA % q
            PB = (PA[0] * bk % q, PA[1]) if which == 1 else (rm.f2scale(PA[0], bk), PA[1])
            assert rm.oncurve(F, PB)
        elif k == 0:
            PB = PA
        elif k == 1:
            PB = rm.cneg(F, PA)
        PC = curve_point()
        A, B, C = arb(PA, ra), arb(PB, rb), arb(PC, rng.choice(gen.REPS))
        if rel == 'same-y' and rng.random() < 0.4:
            # both operands non-normalised with scales chosen so that the cross-multiplied y-coordinates s1 = Y_A*zB^3 and s2 = Y_B*zA^3
            # (both y*zA^3*zB^3 here: r = s2 - s1 = 0 with h != 0) take a chosen small value c, i.e. s1 + s2 in {+-1, +-2, +-4}
            inv2 = (q + 1) // 2
            for c in rng.sample([inv2, q - inv2, 1, q - 1, 2, q - 2], 6):
                cy = F.mul(c if which == 1 else (c, 0), F.inv(PA[1]))
                z = rm.fq_cuberoot(cy) if which == 1 else rm.f2_cuberoot(cy)
                if z is None:
                    continue
                w = rng.choice([1, BETA, BETA * BETA % q])
                za = gen.lam_for(rng, which)
                zb = F.mul(z if which == 1 else z, F.inv(za))
                zb = zb * w % q if which == 1 else rm.f2scale(zb, w)
                A = pr.let(g + '.lit', rm.jac_lit(F, PA, za))[0]
                B = pr.let(g + '.lit', rm.jac_lit(F, PB, zb))[0]
                ctx.count('same-y:cross-multiplied-y-directed')
                break
    else:
        a, _c = gen.scalar_r(rng)
        a = a or 1
        b, _c = gen.scalar_r(rng)
        b = b or 2
        c = rng.randrange(1, r)
        if rel in ('equal', 'samereg'):
            b = a
        elif rel == 'opposite':
            b = (-a) % r
        PA, PB, PC = rm.gmul(which, a), rm.gmul(which, b), rm.gmul(which, c)
        if rel == 'idA':
            PA = None
            A = gen.identity(pr, rng, which, idr)
            B = gen.point(pr, rng, which, b, rb)
        elif rel == 'idB':
            PB = None
            A = gen.point(pr, rng, which, a, ra)
            B = gen.identity(pr, rng, which, idr)
        else:
            A = gen.point(pr, rng, which, a, ra)
            B = A if rel == 'samereg' else gen.point(pr, rng, which, b, rb)
        C = gen.point(pr, rng, which, c, rng.choice(gen.REPS))
    O = gen.identity(pr, rng, which, rng.choice(gen.ID_REPS))
    nt = PA is not None and PB is not None

    def op(label, o, x, y, expect, nontriv=nt):
        reg, i = pr.let(g + '.' + o, x, y) if y is not None else pr.let(g + '.' + o, x)
        exp[i] = (label, expect, nontriv)
        return reg

    AB = rm.cadd(F, PA, PB)
    s = op('A+B', 'add', A, B, AB)
    op('B+A', 'add', B, A, AB)
    op('A-B', 'sub', A, B, rm.cadd(F, PA, rm.cneg(F, PB)))
    op('B-A', 'sub', B, A, rm.cadd(F, PB, rm.cneg(F, PA)))
    op('-A', 'neg', A, None, rm.cneg(F, PA), PA is not None)
    op('-B', 'neg', B, None, rm.cneg(F, PB), PB is not None)
    op('(A+B)+C', 'add', s, C, rm.cadd(F, AB, PC))
    t_ = op('B+C', 'add', B, C, rm.cadd(F, PB, PC), PB is not None)
    op('A+(B+C)', 'add', A, t_, rm.cadd(F, PA, rm.cadd(F, PB, PC)))
    op('A+O', 'add', A, O, PA, False)
    op('O+A', 'add', O, A, PA, False)
    op('(A+B)+O', 'add', s, O, AB, False)
    op('O-(A+B)', 'sub', O, s, rm.cneg(F, AB), False)
    ans = ctx.run(pr.lines)
    cls = 'g%d/%s/%s-%s' % (which, rel, ra, rb)
    regvals = {}
    for i, an in enumerate(ans):
        if an.startswith('ok '):
            regvals['$' + pr.lines[i].split(' ', 1)[0]] = an[3:]
        if i not in exp:
            if not an.startswith('ok '):
                ctx.fail('setup', 'operand construction answered %r for %s' % (an[:120], pr.lines[i][:160]), observed=an, line=pr.lines[i])
                return
            continue
        label, want, nontriv = exp[i]
        head, _, payload = an.partition(' ')
        sig = '%s.%s' % (g, pr.lines[i].split()[1].split('.')[1])
        if head != 'ok':
            ctx.fail(sig, '%s [%s]: %r for %s' % (label, cls, an[:120], pr.lines[i][:100]), observed=an, line=pr.lines[i], cls=cls)
            continue
        try:
            xyz = rm.jac_parse(F, payload)
        except Exception as e:
            ctx.fail(sig, '%s [%s]: unparsable %r' % (label, cls, an[:100]), observed=an, line=pr.lines[i])
            continue
        flat = xyz if which == 1 else [c for v in xyz for c in v]
        if any(c >= q for c in flat):
            ctx.fail(sig, '%s [%s]: coordinate not below q' % (label, cls), observed=an, line=pr.lines[i])
            continue
        if xyz[2] != F.zero and not rm.jac_oncurve(F, xyz):   # every (x, y, 0) denotes the identity
            ctx.fail(sig, '%s [%s]: returned triple is not on the curve' % (label, cls), observed=an, line=pr.lines[i], cls=cls)
            continue
        got = rm.jac_affine(F, xyz)
        if got != want:
            ctx.fail(sig, '%s [%s]: denotes %s, chord-and-tangent gives %s' % (label, cls, _short(got), _short(want)),
                     observed=an, expected=repr(want), line=pr.lines[i], cls=cls)
            continue
        toks = pr.lines[i].split()
        ctx.ok(cls, (which, toks[1]) + tuple(regvals.get(t, t) for t in toks[2:]), nontriv)
    if idr:
        ctx.classes['g%d/identity-form/%s' % (which, idr)] += 1
    ctx.sample(cls, {'program': [l[:100] for l in pr.lines[:6]], 'answers': [a[:100] for a in ans[:6]]})


def _short(P):
    if P is None:
        return 'O'
    return repr(P)[:60] + '…'
