"""C03  All pairing entry points agree and ignore the projective representative; prepared values are reusable."""
from .. import gen, rm
from ..mon import gt_hex
from ..rm import q, r, F1, F2, h32

ID = 'C03'
PERTURB = (8, 80)      # cases re-run in the repeat / parallel perturbation passes (quick, thorough)
RULE = ('grid cases: one pair (a, b) and every combination of representations of P = aG1 and Q = bG2 from {z=1, library Jacobian, '
        'lambda-rescaled, library scalar multiplication, normalised library Jacobian} plus the three identity forms on either side, '
        'through pairing(), fast_pairing() and G2Prepared::pairing(): all values must be byte-identical and equal to the model value '
        'e(P1,P2)^(ab) (1 for an identity). history cases: two prepared values and 4-8 G1 inputs (identity and non-normalised ones '
        'included); 8-64 uniquely numbered calls in a shuffled order interleaved with calls on a clone(), on a freshly prepared copy '
        'and with unrelated pairings; the k-th answer for (Q, P_i) must equal the model value whatever happened before. thread cases: '
        '4-8 threads share one &G2Prepared, each pairing every P_i starting at a different offset. '
        'distinct = distinct (entry point, P triple, Q triple) resp. (history position, Q, P_i); non-trivial = neither side the identity')
ENTRY = ['pair.pairing', 'pair.fast', 'pair.prepared']
PREPS = ['aff', 'jac', 'scaled', 'mul', 'norm']


def EXES(tier):
    return ['release']


def cases(tier, seed):
    ng, nh, nt = (200, 200, 24) if tier == 'quick' else (5000, 5000, 400)
    return [('grid', i) for i in range(ng)] + [('history', i) for i in range(nh)] + [('threads', i) for i in range(nt)]


def required(tier):
    req = []
    for e in ENTRY:
        for rp in PREPS:
            req.append('%s/P-%s' % (e, rp))
            req.append('%s/Q-%s' % (e, rp))
        for i in gen.ID_REPS:
            req.append('%s/P-id-%s' % (e, i))
            req.append('%s/Q-id-%s' % (e, i))
    req += ['history/prepared', 'history/clone', 'history/fresh', 'history/identity-input', 'history/repeat-same-answer', 'threads/shared-prepared']
    return req


def mk(pr, rng, which, k, rep):
    g = 'g%d' % which
    if rep == 'mul':
        return pr.let(g + '.mul', pr.let(g + '.one')[0], h32(k))[0]
    if rep == 'norm':
        return pr.let(g + '.normalize', gen.point(pr, rng, which, k, 'jac'))[0]
    return gen.point(pr, rng, which, k, rep)


def run(ctx, spec):
    kind = spec[0]
    rng = ctx.rng
    pr = gen.Prog()
    exp = {}
    if kind == 'grid':
        a, _c = gen.scalar_r(rng)
        b, _c = gen.scalar_r(rng)
        a = a or 1
        b = b or 1
        want = gt_hex(rm.gt_pow_base(a * b))
        one = gt_hex(rm.ONE)
        Ps = [(rp, mk(pr, rng, 1, a, rp)) for rp in PREPS] + [('id-' + i, gen.identity(pr, rng, 1, i)) for i in gen.ID_REPS]
        Qs = [(rq, mk(pr, rng, 2, b, rq)) for rq in PREPS] + [('id-' + i, gen.identity(pr, rng, 2, i)) for i in gen.ID_REPS]
        pairs = [(p, qq) for p in Ps for qq in Qs]
        rng.shuffle(pairs)
        for (rp, P), (rq, Q) in pairs[:22]:
            ident = rp.startswith('id-') or rq.startswith('id-')
            for e in ENTRY:
                reg, i = pr.let(e, P, Q)
                exp[i] = ('%s/P-%s' % (e, rp), one if ident else want, e, not ident, '%s/Q-%s' % (e, rq))
    elif kind == 'history':
        bs = [gen.dlog(rng), gen.dlog(rng)]
        Qs = [mk(pr, rng, 2, b, rng.choice(PREPS)) for b in bs]
        pps = [pr.let('prep.from', Q)[0] for Q in Qs]
        npt = rng.randrange(4, 9)
        avals = [0] + [gen.scalar_r(rng)[0] or 1 for _ in range(npt - 1)]
        Ps = []
        for a in avals:
            if a == 0:
                Ps.append(gen.identity(pr, rng, 1, rng.choice(gen.ID_REPS)))
            else:
                Ps.append(mk(pr, rng, 1, a, rng.choice(PREPS)))
        clones = [pr.let('prep.clone', pp)[0] for pp in pps]
        n = rng.randrange(8, 65)
        seen = {}
        for step in range(n):
            qi = rng.randrange(2)
            pi = rng.randrange(npt)
            a, b = avals[pi], bs[qi]
            want = gt_hex(rm.gt_pow_base(a * b)) if a else gt_hex(rm.ONE)
            mode = rng.choice(['prepared', 'prepared', 'prepared', 'clone', 'fresh', 'unrelated'])
            if mode == 'prepared':
                reg, i = pr.let('prep.pairing', pps[qi], Ps[pi])
            elif mode == 'clone':
                reg, i = pr.let('prep.pairing', clones[qi], Ps[pi])
            elif mode == 'fresh':
                f = pr.let('prep.from', Qs[qi])[0]
                reg, i = pr.let('prep.pairing', f, Ps[pi])
            else:
                reg, i = pr.let(rng.choice(ENTRY), Ps[pi], Qs[qi])
                mode = 'prepared'
            exp[i] = ('history/' + mode, want, 'prep.pairing', a != 0, None)
            if a == 0:
                ctx.classes['history/identity-input'] += 1
            if (qi, pi) in seen:
                ctx.classes['history/repeat-same-answer'] += 1
            seen[(qi, pi)] = True
            ctx.count('history-calls')
    else:
        b = gen.dlog(rng)
        Q = mk(pr, rng, 2, b, rng.choice(PREPS))
        pp = pr.let('prep.from', Q)[0]
        avals = [0] + [rng.randrange(1, r) for _ in range(rng.randrange(3, 6))]
        Ps = [gen.identity(pr, rng, 1, 'sub')] + [mk(pr, rng, 1, a, rng.choice(PREPS)) for a in avals[1:]]
        nt = rng.choice([4, 6, 8])
        i = pr.emit('_', 'prep.par', nt, pp, *Ps)
        per_thread = ','.join(gt_hex(rm.gt_pow_base(a * b)) if a else gt_hex(rm.ONE) for a in avals)
        exp[i] = ('threads/shared-prepared', ';'.join([per_thread] * nt), 'prep.par', True, None)
        ctx.count('thread-pairings', nt * len(avals))
    ans = ctx.run(pr.lines)
    regvals = {}
    for i, an in enumerate(ans):
        if an.startswith('ok '):
            regvals['$' + pr.lines[i].split(' ', 1)[0]] = an[3:]
        if i not in exp:
            if not an.startswith('ok '):
                ctx.fail('setup', 'operand construction answered %r for %s' % (an[:120], pr.lines[i][:160]), observed=an, line=pr.lines[i])
                return
            continue
        cls, want, e, nontriv, cls2 = exp[i]
        toks = pr.lines[i].split()
        if an == 'ok ' + want:
            key = (e, i if kind == 'history' else 0) + tuple(regvals.get(t, t)[:400] for t in toks[2:])
            ctx.ok(cls, key, nontriv)
            if cls2:
                ctx.classes[cls2] += 1
        else:
            ctx.fail(e, '%s [%s%s]: observed %r…, the group elements determine %r… (operands %s)' % (
                e, cls, (', ' + cls2) if cls2 else '', an[:70], want[:64], [regvals.get(t, t)[:40] for t in toks[2:]]),
                observed=an[:2000], expected=want[:2000], line=pr.lines[i][:2000])
    ctx.sample(kind, {'program': [l[:110] for l in pr.lines[-3:]], 'answers': [a[:90] for a in ans[-3:]]})


def stages(tier, seed):
    """thorough: shared-&G2Prepared threads and histories under ThreadSanitizer, threaded cold start of the lazily initialised
    constants under ThreadSanitizer (repeated runs) and under Miri (several schedules)"""
    from .. import stages as st

    def cold(exes):
        # 8 threads released together, each making a different FIRST call into the crate (lazily initialised constants), in a fresh
        # process each time; plain release executor: values compared with the single-threaded reference
        return st.cold_start('release', 'cold-start', runs=12 if tier == 'quick' else 60, threads=8, exes=exes)
    cold.__name__ = 'cold-start'
    if tier != 'thorough':
        return [cold]

    def tsan_threads(exes):
        picks = [('c03', ('threads', i)) for i in range(12)] + [('c03', ('history', i)) for i in range(6)]
        return st.differential(ID, 'tsan', picks, tier, seed, exes, 'tsan-shared-prepared')

    def tsan_cold(exes):
        return st.cold_start('tsan', 'tsan-cold-start', runs=24, threads=8, exes=exes)

    def miri_cold(exes):
        return st.miri_cold_start('miri-cold-start', threads=4, seeds=6)
    tsan_threads.__name__ = 'tsan-shared-prepared'
    tsan_cold.__name__ = 'tsan-cold-start'
    miri_cold.__name__ = 'miri-cold-start'
    return [cold, tsan_threads, tsan_cold, miri_cold]
