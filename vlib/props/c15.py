"""C15  Point equality, normalisation and affine conversion respect the group element."""
from .. import gen, rm
from ..rm import q, r, F1, F2

ID = 'C15'
EXES = ['release']
RULE = ('each case takes group elements X, Y (same point, opposite, different, identity x identity forms) and builds three '
        'representatives of X and one of Y from the grid {z=1, library Jacobian, lambda-rescaled with lambda incl. -1} / the three '
        'identity forms; the library evaluates == in both directions on every pair, !=, is_zero, normalize, AffineG*::from_jacobian, '
        'x()/y(), From<AffineG*> and the round trip; the model judges == against equality of the denoted points (its own affine '
        'maps), normalize against z = 1 and the same point, affine conversion against None <=> identity and the model coordinates. '
        'distinct = distinct (group, op, operand triples); non-trivial = at least one operand is not the identity')

RELS = ['same', 'opposite', 'different', 'id-id', 'id-point']


def cases(tier, seed):
    reps = 15 if tier == 'quick' else 1200
    out = []
    for _ in range(reps):
        for which in (1, 2):
            for rel in RELS:
                for ra in gen.REPS:
                    for rb in gen.REPS:
                        out.append((which, rel, ra, rb))
    return out


def required(tier):
    req = []
    for which in (1, 2):
        for rel in RELS:
            req += ['g%d.eq/%s' % (which, rel)]
        req += ['g%d.eq/near-equal' % which, 'g%d.eq/lambda=-1' % which, 'g%d.eq/reflexive' % which, 'g%d.eq/transitive' % which, 'g%d.ne' % which,
                'g%d.is_zero' % which, 'g%d.normalize' % which, 'g%d.normalize/identity' % which, 'g%d.from_jacobian' % which,
                'g%d.from_jacobian/identity' % which, 'g%d.affine.xy' % which, 'g%d.from_affine' % which, 'g%d.affine.eq' % which]
    return req


def run(ctx, spec):
    which, rel, ra, rb = spec
    rng = ctx.rng
    F = F1 if which == 1 else F2
    g = 'g%d' % which
    pr = gen.Prog()
    exp = {}
    a, _c = gen.scalar_r(rng)
    a = a or 1
    if rel == 'same':
        b = a
    elif rel == 'opposite':
        b = (-a) % r
    else:
        b = gen.dlog(rng)
        if b == a:
            b = (a + 1) % r or 1
    # representatives
    vals = {}    # reg -> affine model point

    def rep_of(k, rep):
        if k is None:
            reg = gen.identity(pr, rng, which, rep)
            vals[reg] = None
        else:
            reg = gen.point(pr, rng, which, k, rep)
            vals[reg] = rm.gmul(which, k)
        return reg

    if rel == 'id-id':
        X = [rep_of(None, i) for i in gen.ID_REPS]
        Y = rep_of(None, rng.choice(gen.ID_REPS))
    elif rel == 'id-point':
        X = [rep_of(None, i) for i in gen.ID_REPS]
        Y = rep_of(b, rb)
    else:
        X = [rep_of(a, ra), rep_of(a, rng.choice(gen.REPS)), rep_of(a, rng.choice(['scaled', 'setters']))]
        Y = rep_of(b, rb)
        # the lambda = -1 representative (x, -y, -1) of X: same point, although y differs in sign
        P = rm.gmul(which, a)
        m1 = (q - 1) if which == 1 else (q - 1, 0)
        Xm = pr.let(g + '.lit', rm.jac_lit(F, P, m1))[0]
        vals[Xm] = P
        i = pr.emit('_', g + '.eq', X[0], Xm)
        exp[i] = ('%s.eq/lambda=-1' % g, 'bool true', True)
        i = pr.emit('_', g + '.eq', Xm, Y)
        exp[i] = ('%s.eq/lambda=-1' % g, 'bool ' + str(vals[Xm] == vals[Y]).lower(), True)

    def eq(x, y, cls):
        nt = vals[x] is not None or vals[y] is not None
        i = pr.emit('_', g + '.eq', x, y)
        exp[i] = (cls, 'bool ' + str(vals[x] == vals[y]).lower(), nt)

    if rel not in ('id-id', 'id-point') and rng.random() < 0.3:
        # history template: a scalar inversion in Fr directly before normalising a point whose z has the SAME internal limbs
        m = rng.getrandbits(250) | 1
        if which == 2:
            # G2 inverts the norm z0^2 + 2 z1^2 of z in Fq: take z = (z0, 0) with z0^2 having the internal limbs m
            while rm.fq_sqrt(rm.unmont(m, q)) is None:
                m = rng.getrandbits(250) | 1
        lamz = rm.unmont(m, q) if which == 1 else (rm.fq_sqrt(rm.unmont(m, q)), 0)
        Pz = rm.gmul(which, a)
        Z = pr.let(g + '.lit', rm.jac_lit(F, Pz, lamz))[0]
        vals[Z] = Pz
        pr.emit('_', 'fr.inverse', rm.h32(rm.unmont(m, r)))
        n_, i = pr.let(g + '.normalize', Z)
        exp[i] = ('%s.normalize' % g, ('norm', Pz), True)
        pr.emit('_', 'fr.inverse', rm.h32(rm.unmont(m, r)))
        a_, i = pr.let(g + '.aff.from_jacobian', Z)
        exp[i] = ('%s.from_jacobian' % g, 'ok ' + F.enc(Pz[0]) + F.enc(Pz[1]), True)
        ctx.count('cross-type-alias-template')
    if rel not in ('id-id', 'id-point'):
        # near-equal triples: the SAME raw X and Y with z multiplied by a root of unity, or one raw coordinate changed: these denote
        # other points (-P, the same-y partner (omega*x, y), ...) although two of the three stored coordinates coincide
        from .c04 import BETA
        Pn = rm.gmul(which, a)
        lam0 = gen.lam_for(rng, which)
        base = rm.jac_lit(F, Pn, lam0)
        w_ = F.width
        bx, by, bz = base[:w_], base[w_:2 * w_], base[2 * w_:]
        Breg = pr.let(g + '.lit', base)[0]
        vals[Breg] = Pn
        zeta = rng.choice([q - 1, BETA, BETA * BETA % q, (q - BETA) % q, (q - BETA * BETA) % q])
        zz = F.dec(bz)
        z2 = (zz * zeta % q) if which == 1 else rm.f2scale(zz, zeta)
        variants = [bx + by + F.enc(z2), bx + F.enc(F.neg(F.dec(by))) + bz]
        for lit in variants:
            reg = pr.let(g + '.lit', lit)[0]
            vals[reg] = rm.jac_affine(F, rm.jac_parse(F, lit))
            eq(Breg, reg, '%s.eq/near-equal' % g)
            eq(reg, Breg, '%s.eq/near-equal' % g)
    for x in X:
        eq(x, Y, '%s.eq/%s' % (g, rel))
        eq(Y, x, '%s.eq/%s' % (g, rel))
        eq(x, x, '%s.eq/reflexive' % g)
        i = pr.emit('_', g + '.ne', x, Y)
        exp[i] = ('%s.ne' % g, 'bool ' + str(vals[x] != vals[Y]).lower(), True)
    eq(X[0], X[1], '%s.eq/transitive' % g)
    eq(X[1], X[2], '%s.eq/transitive' % g)
    eq(X[0], X[2], '%s.eq/transitive' % g)
    eq(X[2], X[0], '%s.eq/transitive' % g)
    for x in X + [Y]:
        Pv = vals[x]
        i = pr.emit('_', g + '.is_zero', x)
        exp[i] = ('%s.is_zero' % g, 'bool ' + str(Pv is None).lower(), Pv is not None)
        n_, i = pr.let(g + '.normalize', x)
        exp[i] = ('%s.normalize' % g + ('/identity' if Pv is None else ''), ('norm', Pv), Pv is not None)
        vals[n_] = Pv
        eq(n_, x, '%s.eq/%s' % (g, 'same' if Pv is not None else 'id-id'))
        a_, i = pr.let(g + '.aff.from_jacobian', x)
        if Pv is None:
            exp[i] = ('%s.from_jacobian/identity' % g, 'none', False)
        else:
            exp[i] = ('%s.from_jacobian' % g, 'ok ' + F.enc(Pv[0]) + F.enc(Pv[1]), True)
            i = pr.emit('_', g + '.aff.x', a_)
            exp[i] = ('%s.affine.xy' % g, 'ok ' + F.enc(Pv[0]), True)
            i = pr.emit('_', g + '.aff.y', a_)
            exp[i] = ('%s.affine.xy' % g, 'ok ' + F.enc(Pv[1]), True)
            if rng.random() < 0.3:
                # AffineG*::set_x / set_y: overwrite the coordinates of another affine value with those of this point
                o_ = pr.let(g + '.aff.from_jacobian', pr.let(g + '.one')[0])[0]
                o_ = pr.let(g + '.aff.set_x', o_, F.enc(Pv[0]))[0]
                o_, i = pr.let(g + '.aff.set_y', o_, F.enc(Pv[1]))
                exp[i] = ('%s.affine.setters' % g, 'ok ' + F.enc(Pv[0]) + F.enc(Pv[1]), True)
                i = pr.emit('_', g + '.aff.eq', o_, a_)
                exp[i] = ('%s.affine.eq' % g, 'bool true', True)
            b_, i = pr.let(g + '.aff.to_g', a_)
            exp[i] = ('%s.from_affine' % g, ('denotes', Pv), True)
            vals[b_] = Pv
            eq(b_, x, '%s.eq/same' % g)
            a2, i = pr.let(g + '.aff.from_jacobian', Y)
            if vals[Y] is not None:
                exp[i] = ('%s.from_jacobian' % g, 'ok ' + F.enc(vals[Y][0]) + F.enc(vals[Y][1]), True)
                i = pr.emit('_', g + '.aff.eq', a_, a2)
                exp[i] = ('%s.affine.eq' % g, 'bool ' + str(Pv == vals[Y]).lower(), True)
            else:
                exp[i] = ('%s.from_jacobian/identity' % g, 'none', False)
    ans = ctx.run(pr.lines)
    regvals = {}
    for i, an in enumerate(ans):
        if an.startswith('ok '):
            regvals['$' + pr.lines[i].split(' ', 1)[0]] = an[3:]
        if i not in exp:
            if not an.startswith('ok '):
                ctx.fail('setup', 'operand construction answered %r for %s' % (an[:120], pr.lines[i][:160]), observed=an, line=pr.lines[i])
                return
            continue
        cls, want, nontriv = exp[i]
        toks = pr.lines[i].split()
        key = (which, toks[1]) + tuple(regvals.get(t, t) for t in toks[2:])
        sig = toks[1]
        if isinstance(want, tuple) and want[0] == 'denotes':
            # From<AffineG*>: any representative of the same point is acceptable
            good = False
            if an.startswith('ok '):
                try:
                    good = rm.jac_affine(F, rm.jac_parse(F, an[3:])) == want[1]
                except Exception:
                    good = False
            if good:
                ctx.ok(cls, key, nontriv)
            else:
                ctx.fail(sig, '%s: conversion from affine form does not denote the same point: %r' % (cls, an[:120]), observed=an, line=pr.lines[i])
        elif isinstance(want, tuple):
            Pv = want[1]
            head, _, payload = an.partition(' ')
            good = False
            why = 'answer %r' % an[:100]
            if head == 'ok':
                try:
                    xyz = rm.jac_parse(F, payload)
                    if Pv is None:
                        good = xyz[2] == F.zero
                        why = 'normalize of an identity value must stay the identity'
                    else:
                        good = xyz[2] == F.one and (xyz[0], xyz[1]) == Pv
                        why = 'normalize must give (x, y, 1) of the same point'
                except Exception as e:
                    why = 'unparsable (%s)' % e
            if good:
                ctx.ok(cls, key, nontriv)
            else:
                ctx.fail(sig, '%s: %s; observed %r' % (cls, why, an[:120]), observed=an, line=pr.lines[i])
        elif an == want:
            ctx.ok(cls, key, nontriv)
        else:
            ctx.fail(sig, '%s: observed %r, model expects %r for %s with operands %s' % (
                cls, an[:100], want[:100], pr.lines[i], [regvals.get(t, t)[:40] for t in toks[2:]]), observed=an, expected=want, line=pr.lines[i])
    ctx.sample('%s/%s' % (g, rel), {'program': [l[:110] for l in pr.lines[:6]], 'answers': [a[:110] for a in ans[:6]]})
