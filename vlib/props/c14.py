"""C14  Square roots are sound and complete in Fq and Fq2."""
from .. import gen, rm, points
from ..mon import f2hex, hex_f2
from ..rm import q, r, h32, f2mul, f2neg, F1, F2

ID = 'C14'
PERTURB = (60, 400)      # cases re-run in the repeat / parallel perturbation passes (quick, thorough): decoders and square roots are cheap
EXES = ['release']
RULE = ('each event is Fq::sqrt, Fq2::sqrt or a compressed-point decode; Some(s) is judged by squaring s in the model, '
        'Some/None by Euler\'s criterion (Fq) resp. the norm criterion (Fq2); which of the two roots is returned is not judged. '
        'Inputs: squares of limb-class elements, non-residues, real elements of Fq2 in the four classes {QR, non-QR} x '
        '{below, above q/2}, purely imaginary elements, 0, 1, -1, -2, x-coordinates of [k]G for boundary and random k (both '
        'prefixes). distinct = distinct (op, input); non-trivial = input not in {0, 1}')


def cases(tier, seed):
    n = 800 if tier == 'quick' else 40000
    return [('mix', 30)] * n


def required(tier):
    return ['fq.sqrt/square', 'fq.sqrt/nonresidue', 'fq.sqrt/zero', 'fq2.sqrt/square', 'fq2.sqrt/nonsquare', 'fq2.sqrt/zero',
            'fq2.sqrt/real-qr-low', 'fq2.sqrt/real-qr-high', 'fq2.sqrt/real-nqr-low', 'fq2.sqrt/real-nqr-high',
            'fq2.sqrt/imag', 'fq2.sqrt/fixed', 'g1.from_compressed/02', 'g1.from_compressed/03', 'g2.from_compressed/02',
            'g2.from_compressed/03', 'g1.from_compressed/nopoint', 'fq2.sqrt/computed', 'g1.from_compressed/x-near-q']


def run(ctx, spec):
    rng = ctx.rng
    lines, exp = [], []

    def add(line, kind, cls, x, extra=None):
        lines.append(line)
        exp.append((kind, cls, x, extra))

    for _ in range(spec[1]):
        k = rng.randrange(12)
        if k < 3:
            a, _c = gen.field_value(rng, q)
            if k == 0:
                x = a * a % q
            elif k == 1:
                x = a
            else:
                x = rng.choice([0, 1, q - 1, q - 2, 2, 4, (q - 1) // 2, (q + 1) // 2])
            cls = 'fq.sqrt/' + ('zero' if x == 0 else 'square' if rm.fq_issq(x) else 'nonresidue')
            add('_ fq.sqrt %s' % h32(x), 'fq', cls, x)
        elif k == 8 and rng.random() < 0.5:
            # the input is COMPUTED by the library: z * conj(z) - the imaginary part cancels exactly from non-zero cross terms
            z, _c = gen.fq2_value(rng)
            zc = (z[0], (-z[1]) % q)
            lines.append('t fq2.mul.vv %s %s' % (f2hex(z), f2hex(zc)))
            exp.append(('setup', None, None, None))
            add('_ fq2.sqrt $t', 'fq2', 'fq2.sqrt/computed', f2mul(z, zc))
        elif k < 9:
            z, _c = gen.fq2_value(rng)
            kk = rng.randrange(8)
            if kk == 0:
                x = f2mul(z, z)
                cls = 'square'
            elif kk == 1:
                x = z
                cls = None
            elif kk in (2, 3, 4):
                a = gen.field_value(rng, q)[0] or 5
                if kk == 3:
                    a = rng.choice([a, (-a) % q, a * a % q, (-(a * a)) % q, 2 * a * a % q, (-2 * a * a) % q])
                x = (a, 0)
                cls = 'real-%s-%s' % ('qr' if rm.fq_issq(a) else 'nqr', 'low' if a <= (q - 1) // 2 else 'high')
            elif kk == 5:
                b = gen.field_value(rng, q)[0] or 7
                x = (0, b)
                cls = 'imag'
            elif kk == 6:
                x = rng.choice([(0, 0), (1, 0), (q - 1, 0), (q - 2, 0), (4, 0), (q - 8, 0), (0, 1), (0, q - 1), (2, 0), (q - 4, 0)])
                cls = 'zero' if x == (0, 0) else 'fixed'
            else:
                # a square with tiny or boundary components
                s = (rng.choice([1, 2, q - 1, (q - 1) // 2]), rng.choice([0, 1, q - 1, 2]))
                x = f2mul(s, s)
                cls = 'square'
            if cls is None or cls == 'square':
                cls = 'zero' if x == (0, 0) else 'square' if rm.f2issq(x) else 'nonsquare'
            add('_ fq2.sqrt %s' % f2hex(x), 'fq2', 'fq2.sqrt/' + cls, x)
        else:
            which = 1 if k < 11 else 2
            F = F1 if which == 1 else F2
            kk, _c = gen.scalar_r(rng)
            if kk == 0:
                kk = 1
            P = rm.gmul(which, kk)
            pre = rng.choice(['02', '03'])
            add('_ g%d.from_compressed %s%s' % (which, pre, F.enc(P[0])), 'dec', 'g%d.from_compressed/%s' % (which, pre), (which, P, pre))
            if which == 1 and rng.random() < 0.3:
                # x-coordinates just below q (between r and q): a range check against the wrong modulus would refuse them
                for kk2 in rng.sample(range(1, 400), 6):
                    Pq = points.lift_x(1, q - kk2)
                    if Pq is not None:
                        pre2 = rng.choice(['02', '03'])
                        add('_ g1.from_compressed %s%s' % (pre2, h32(q - kk2)), 'dec', 'g1.from_compressed/x-near-q', (1, Pq, pre2))
                        break
            if which == 1 and rng.random() < 0.5:
                x = rng.randrange(q)
                if not rm.fq_issq((x * x * x + 5) % q):
                    add('_ g1.from_compressed %s%s' % (pre, h32(x)), 'nopoint', 'g1.from_compressed/nopoint', x)
    ans = ctx.run(lines)
    for line, an, (kind, cls, x, extra) in zip(lines, ans, exp):
        if kind == 'setup':
            if not an.startswith('ok '):
                ctx.fail('setup', 'setup line answered %r (%s)' % (an[:100], line[:120]), observed=an, line=line)
            continue
        head, _, payload = an.partition(' ')
        sig = cls.split('/')[0]
        if kind == 'fq':
            issq = rm.fq_issq(x)
            if head == 'ok':
                s = int(payload, 16)
                good = issq and s < q and s * s % q == x and (x != 0 or s == 0)
            else:
                good = head == 'none' and not issq
            if good:
                ctx.ok(cls, ('fq', x), x > 1)
            else:
                ctx.fail(sig, 'Fq::sqrt(%s): observed %r; model: %s' % (h32(x), an[:80], 'is a square' if issq else 'is a non-residue'),
                         observed=an, line=line, input=h32(x))
        elif kind == 'fq2':
            issq = rm.f2issq(x)
            if head == 'ok':
                s = hex_f2(payload)
                good = issq and s[0] < q and s[1] < q and f2mul(s, s) == x
            else:
                good = head == 'none' and not issq
            if good:
                ctx.ok(cls, ('fq2', x), x not in ((0, 0), (1, 0)))
            else:
                ctx.fail(sig, 'Fq2::sqrt(%s + %s u) [%s]: observed %r; model: %s' % (h32(x[0]), h32(x[1]), cls, an[:150],
                         'is a square' if issq else 'is not a square'), observed=an, line=line, input=f2hex(x), cls=cls)
        elif kind == 'dec':
            which, P, pre = x
            F = F1 if which == 1 else F2
            y0 = P[1] if which == 1 else P[1][0]
            want = P if (y0 % 2 == 0) == (pre == '02') else rm.cneg(F, P)
            good = False
            if head == 'ok':
                try:
                    good = rm.jac_affine(F, rm.jac_parse(F, payload)) == want
                except Exception:
                    good = False
            if good:
                ctx.ok(cls, ('dec', which, P[0], pre))
            else:
                ctx.fail(sig, 'from_compressed of an x-coordinate that carries a point of G%d: observed %r' % (which, an[:120]),
                         observed=an, line=line)
        else:
            if head == 'err':
                ctx.ok(cls, ('nopoint', x))
            else:
                ctx.fail(sig, 'from_compressed accepted x with x^3+5 a non-residue: %r' % an[:120], observed=an, line=line)
    ctx.sample('program', {'lines': [l[:160] for l in lines[:3]], 'answers': [a[:160] for a in ans[:3]]})
