"""C11  Gt is a commutative group of order r and pow is exponentiation."""
from .. import gen, rm
from ..mon import gt_parse, gt_hex
from ..rm import q, r, F1, F2, h32

ID = 'C11'
PERTURB = (8, 80)      # cases re-run in the repeat / parallel perturbation passes (quick, thorough)
EXES = ['release']
RULE = ('each case obtains pairing values g, h (pairings of random / boundary multiples of the generators through a random entry point, '
        'and derived values: products, powers, inverses) and evaluates through the library g*h, h*g, g*one, inverse(g), inverse(g)*g, '
        'g^a, g^b, g^a*g^b, g^(a+b), (g^a)^b, g^(ab), (g*h)^a, g^a*h^a, g^0, g^1, and == on equal and unequal pairs incl. Frobenius conjugates g^(q^k) (which share coefficient blocks with g); every returned '
        '384-byte value is parsed (each limb < q) and compared with the model\'s flat Fq12 product / extended-Euclid inverse / '
        'square-and-multiply; == must coincide with byte equality. distinct = distinct (op, operand bytes, scalar); '
        'non-trivial = operands are not one and the scalar is not 0 or 1')


def cases(tier, seed):
    n = 256 if tier == 'quick' else 10000
    return [('gt', i) for i in range(n)]


def required(tier):
    return ['mul', 'mul/commuted', 'mul/one', 'inverse', 'inverse*g', 'pow', 'pow/0', 'pow/1', 'pow/r-1', 'law/add-exponents', 'law/mul-exponents',
            'law/distribute', 'eq/true', 'eq/false', 'limbs<q', 'derived-operand', 'conjugate']


def run(ctx, spec):
    rng = ctx.rng
    pr = gen.Prog()
    exp = {}
    model = {}     # reg -> flat model value

    def val(reg, i, v, cls, nontriv=True):
        exp[i] = ('val', cls, v, nontriv)
        model[reg] = v
        return reg

    def pairing_value():
        a = gen.scalar_r(rng)[0] or 1
        b = gen.scalar_r(rng)[0] or 1
        P = gen.point(pr, rng, 1, a, rng.choice(gen.REPS))
        Q = gen.point(pr, rng, 2, b, rng.choice(gen.REPS))
        reg, i = pr.let(rng.choice(['pair.pairing', 'pair.fast', 'pair.prepared']), P, Q)
        return val(reg, i, list(rm.gt_pow_base(a * b)), 'limbs<q')

    def sc():
        k = gen.scalar_r(rng)[0]
        c = rng.randrange(10)
        return 0 if c == 0 else 1 if c == 1 else r - 1 if c == 2 else 2 if c == 3 else k

    g = pairing_value()
    h = pairing_value()
    one, i = pr.let('gt.one')
    val(one, i, rm.ONE, 'mul/one', False)
    a, b = sc(), sc()
    fm, fp, fi = rm.fmul, rm.fpow, rm.finv

    def mul(x, y, cls, nt=True):
        reg, i = pr.let('gt.mul', x, y)
        return val(reg, i, fm(model[x], model[y]), cls, nt)

    def pw(x, k, cls, nt=True):
        reg, i = pr.let('gt.pow', x, h32(k))
        return val(reg, i, fp(model[x], k), cls, nt)

    def eq(x, y):
        i = pr.emit('_', 'gt.eq', x, y)
        exp[i] = ('eq', model[x] == model[y])
        i = pr.emit('_', 'gt.ne', x, y)
        exp[i] = ('eq', model[x] != model[y])

    gh = mul(g, h, 'mul')
    hg = mul(h, g, 'mul/commuted')
    eq(gh, hg)
    g1_ = mul(g, one, 'mul/one', False)
    eq(g1_, g)
    eq(g, h)
    inv, i = pr.let('gt.inverse', g)
    val(inv, i, fi(model[g]), 'inverse')
    ig = mul(inv, g, 'inverse*g')
    eq(ig, one)
    ga = pw(g, a, 'pow/0' if a == 0 else 'pow/1' if a == 1 else 'pow/r-1' if a == r - 1 else 'pow', a > 1)
    gb = pw(g, b, 'pow/0' if b == 0 else 'pow/1' if b == 1 else 'pow/r-1' if b == r - 1 else 'pow', b > 1)
    g0 = pw(h, 0, 'pow/0', False)
    eq(g0, one)
    g1p = pw(h, 1, 'pow/1', False)
    eq(g1p, h)
    gm = pw(gh, r - 1, 'pow/r-1')
    eq(mul(gm, gh, 'inverse*g'), one)
    l = mul(ga, gb, 'law/add-exponents')
    rr_ = pw(g, (a + b) % r, 'law/add-exponents')
    eq(l, rr_)
    l = pw(ga, b, 'law/mul-exponents')
    rr_ = pw(g, a * b % r, 'law/mul-exponents')
    eq(l, rr_)
    l = pw(gh, a, 'law/distribute')
    ha = pw(h, a, 'pow', a > 1)
    rr_ = mul(ga, ha, 'law/distribute')
    eq(l, rr_)
    # Frobenius conjugates g^(q^k): distinct group elements that share whole blocks of coefficients with g
    # (g^(q^4) keeps the v^0 block, g^(q^6) is the conjugate): == must still tell them apart
    kf = rng.randrange(1, 12)
    cj = pw(g, pow(rm.q, kf, r), 'conjugate')
    if rm.frob(model[g], kf) != model[cj]:
        raise AssertionError('model: frobenius disagrees with powering')
    eq(g, cj)
    eq(cj, g)
    cj2 = pw(cj, pow(rm.q, 12 - kf, r), 'conjugate')
    eq(cj2, g)
    # ... and every operation must treat them as the different elements they are (a shortcut keyed on one shared block would not)
    m1 = mul(g, cj, 'conjugate')
    m2 = mul(cj, g, 'conjugate')
    eq(m1, m2)
    eq(mul(m1, inv, 'conjugate'), cj)
    kf2 = rng.choice([4, 8, 6, 2, rng.randrange(1, 12)])
    cj3 = pw(g, pow(rm.q, kf2, r), 'conjugate')
    mul(cj, cj3, 'conjugate')
    # derived operands: products / powers / inverses as inputs of further operations
    d1 = mul(l, inv, 'derived-operand')
    d2, i = pr.let('gt.inverse', d1)
    val(d2, i, fi(model[d1]), 'derived-operand')
    eq(mul(d1, d2, 'derived-operand'), one)
    eq(d1, d2)
    ans = ctx.run(pr.lines)
    regvals = {}
    for i, an in enumerate(ans):
        if an.startswith('ok '):
            regvals['$' + pr.lines[i].split(' ', 1)[0]] = an[3:]
        if i not in exp:
            if not an.startswith('ok '):
                ctx.fail('setup', 'operand construction answered %r for %s' % (an[:120], pr.lines[i][:160]), observed=an, line=pr.lines[i])
                return
            continue
        e = exp[i]
        toks = pr.lines[i].split()
        key = (toks[1],) + tuple(regvals.get(t, t) for t in toks[2:])
        if e[0] == 'eq':
            want = 'bool ' + str(e[1]).lower()
            if an == want:
                ctx.ok('eq/' + str(e[1]).lower() if toks[1] == 'gt.eq' else 'eq/' + str(not e[1]).lower(), key)
            else:
                ctx.fail(toks[1], '%s: observed %r but the encodings are %s' % (toks[1], an, 'equal' if (e[1] if toks[1] == 'gt.eq' else not e[1]) else 'different'),
                         observed=an, line=pr.lines[i], operands=[regvals.get(t, t) for t in toks[2:]])
            continue
        _, cls, v, nontriv = e
        head, _, payload = an.partition(' ')
        try:
            if head != 'ok':
                raise ValueError('answer %r' % an[:100])
            got = gt_parse(payload)
        except ValueError as ex:
            ctx.fail(toks[1], '%s [%s]: %s' % (toks[1], cls, ex), observed=an, line=pr.lines[i])
            continue
        ctx.classes['limbs<q'] += 1
        if got == v:
            ctx.ok(cls, key, nontriv)
        else:
            ctx.fail(toks[1], '%s [%s]: value differs from F_q^12 arithmetic: observed %s…, model %s… (%s)' % (toks[1], cls, payload[:48], gt_hex(v)[:48], pr.lines[i][:100]),
                     observed=an, expected=gt_hex(v), line=pr.lines[i], operands=[regvals.get(t, t) for t in toks[2:]])
    ctx.sample('gt', {'program': [l[:110] for l in pr.lines[-4:]], 'answers': [x[:90] for x in ans[-4:]]})
