"""C17  The F_q^12 tower engine and final exponentiation are correct on every element (through the cfg hooks)."""
from .. import gen, mon, rm
from ..rm import q, r, R, h32, F1, F2, fmul, fpow, finv, frob, fadd, fsub, fneg

ID = 'C17'
PERTURB = (8, 80)      # cases re-run in the repeat / parallel perturbation passes (quick, thorough)
EXES = ['release']
NEEDS_HOOKS = True
# with only part of the hooks compiling (a private tower / pairing method was refactored) the classes of the missing ops are waived
HOOK_CLASSES = ('f4.', 'f12.', 'ml.', 'ln.')
RULE = ('each event is one call of an internal tower / pairing-engine function, reached through the cfg(john_yu_sm9_core_verif) re-exports, '
        'on an arbitrary element built from a literal: Fq4 {mul, squared, inverse, mul_1 (sparse precondition), the eight Frobenius '
        'component maps, scale, scale_fq, mul_by_nonresidue, unitary_inverse, add, sub, neg}, Fq12 {mul, squared, inverse, mul_015 (sparse '
        'precondition), frobenius 1/2/3/6, scale, mul_by_nonresidue, pow(u128) with the exponents used by the addition chains and random ones, '
        'pow(Fr), final_exponentiation, final_exp, first chunk, both last chunks (on unitary inputs)}, both Miller loops on the same inputs, and (optional hooks) every single line function of both loops - tangent / chord value and accumulator update - for each representation of T and Q, plus the Frobenius images of Q. '
        'Oracle: flat Fq[w]/(w^12+2) arithmetic of the model (schoolbook product, extended-Euclid inverse, x^(q^k) by generic powering, '
        'x^((q^12-1)/r) by one generic power). Element classes: uniform, sparse, subfield (Fq, Fq2, Fq4), unitary, zero, limb patterns, '
        'all-coefficients-near-q in the Montgomery domain (maximal carries in the interleaved multiplier; the model computes and reports the '
        'carry histogram). distinct = distinct (op, operand bytes); non-trivial = the operand has at least two non-zero coefficients')
ASSUMPTIONS = ['hooks: sm9_core::verif_hooks re-exports (add-only, cfg-guarded); the last-chunk functions are judged on unitary inputs only, '
               'the full final exponentiations on every non-zero element']
QINV = (-pow(q, -1, R)) % R
HARD = (q**4 - q**2 + 1) // r
assert (q**4 - q**2 + 1) % r == 0
EASY = (q**6 - 1) * (q**2 + 1)
assert EASY * HARD == rm.FINAL_EXP
S = 0x600000000058F98A
EXPS = [0, 1, 2, 3, 9, S, 0x2400000000215D93E, 0xd8000000019062ed0000b98b0cb27659, 0x2400000000215d941, (1 << 128) - 1, 1 << 127]
F4_FROB = [10, 11, 12, 21, 22, 30, 31, 32]


def cases(tier, seed):
    n = 160 if tier == 'quick' else 8000
    out = []
    for i in range(n):
        out.append(('f4', i))
        out.append(('f12', i))
    for i in range(n // 2):
        out.append(('fexp', i))
    for i in range(n // 4 + 1):
        out.append(('miller', i))
    for i in range(n // 3 + 1):
        out.append(('lines', i))
    return out


def required(tier):
    req = ['f4.' + o for o in ('mul', 'sqr', 'inv', 'inv/zero', 'mul_1', 'scale', 'scale_fq', 'nonres', 'unitary', 'add', 'sub', 'neg', 'double', 'triple', 'is_zero')]
    req += ['f4.frob/%d' % k for k in F4_FROB]
    req += ['f12.' + o for o in ('mul', 'sqr', 'inv', 'inv/zero', 'mul_015', 'scale', 'nonres', 'pow128', 'powfr', 'add', 'sub', 'neg', 'double', 'triple', 'is_zero')]
    req += ['f12.frob/%d' % k for k in (1, 2, 3, 6)] + ['f12.mul/cancel', 'f4.mul/cancel']
    req += ['f12.fexp', 'f12.fexp2', 'f12.fexp/zero', 'f12.fexp2/zero', 'f12.first', 'f12.last1', 'f12.last2', 'f12.fexp/non-unitary', 'f12.fexp/subfield',
            'ml.jac', 'ml.prep', 'ml.agree', 'ml.jac/Q-aff', 'ml.jac/Q-scaled', 'ml.jac/Q-jac', 'carry.f4mul/0', 'carry.f4mul/1', 'carry.f4mul/2', 'class/sparse', 'class/unitary', 'class/max-carry',
            'class/subfield', 'class/uniform', 'class/limbs', 'class/norm-one', 'class/near-one', 'class/root-of-near-one']
    return req


def carries(As, Bs):
    Ssum = sum(a * b for a, b in zip(As, Bs))
    k = (Ssum * QINV) % R
    return ((Ssum + k * q) >> 256) >> 256


def f4mul_carries(a, b):
    """carry counts of the four sums of products of Fq4 multiplication as the crate arranges them"""
    m = lambda v: rm.mont(v % q, q)
    (a00, a01), (a10, a11) = a
    (b00, b01), (b10, b11) = b
    a01d, a11d, a10d = -2 * a01, -2 * a11, -2 * a10
    return [carries([m(a00), m(a01d), m(a10d), m(a11d)], [m(b00), m(b01), m(b11), m(b10)]),
            carries([m(a00), m(a01), m(a10), m(a11d)], [m(b01), m(b00), m(b10), m(b11)]),
            carries([m(a00), m(a01d), m(a10), m(a11d)], [m(b10), m(b11), m(b00), m(b01)]),
            carries([m(a00), m(a01), m(a10), m(a11)], [m(b11), m(b10), m(b01), m(b00)])]


def coeff(rng, cls):
    if cls == 'max-carry':
        return rm.unmont(q - 1 - rng.randrange(3), q)
    if cls == 'limbs':
        return gen.field_value(rng, q)[0]
    return rng.randrange(q)


def element12(rng):
    """(flat element, class)"""
    k = rng.randrange(10)
    if k == 0:
        n = rng.randrange(1, 3)
        a = [0] * 12
        for _ in range(n):
            a[rng.randrange(12)] = rng.randrange(1, q)
        return a, 'sparse'
    if k == 1:
        a = [0] * 12
        sub = rng.choice([(0,), (0, 6), (0, 3, 6, 9)])
        for e in sub:
            a[e] = rng.randrange(q)
        return a, 'subfield'
    if k == 2:
        x = [rng.randrange(q) for _ in range(12)]
        return fmul(frob(x, 6), finv(x)), 'unitary'
    if k == 3:
        if rng.random() < 0.5:
            return [coeff(rng, 'max-carry') for _ in range(12)], 'max-carry'
        # relative norm one without being unitary: y^(q^k - 1) has norm 1 to the fixed field of the q^k-power map (k = 4: to Fq4)
        y = [rng.randrange(q) for _ in range(12)]
        kk = rng.choice([1, 2, 3, 4])
        return fmul(frob(y, kk), finv(y)), 'norm-one'
    if k == 9 and rng.random() < 0.6:
        # identity-like elements: one (or zero) plus a perturbation confined to a single coefficient block / a single coefficient
        a = [0] * 12
        a[0] = rng.choice([1, 1, 1, 0, q - 1])
        blk = rng.choice([[1, 4, 7, 10], [2, 5, 8, 11], [3, 9], [6], [rng.randrange(1, 12)]])
        for e in blk:
            if rng.random() < 0.7:
                a[e] = rng.randrange(1, q)
        return a, 'near-one'
    if k in (4, 5):
        return [coeff(rng, 'limbs') for _ in range(12)], 'limbs'
    return [rng.randrange(q) for _ in range(12)], 'uniform'


def element4(rng):
    a, cls = element12(rng)
    if cls in ('unitary', 'norm-one'):
        cls = 'uniform'
        a = [rng.randrange(q) for _ in range(12)]
    x = rm.f12_to4(a, 0)
    if cls == 'subfield':
        x = rng.choice([((x[0][0], 0), (0, 0)), ((x[0][0], x[0][1]), (0, 0)), ((0, 0), x[1])])
    return x, cls


def h4(x):
    return rm.ser4(x).hex()


def h12(a):
    return rm.ser12(a).hex()


def nz(a):
    return sum(1 for c in a if c) >= 2


def run(ctx, spec):
    kind = spec[0]
    rng = ctx.rng
    lines, exp = [], []

    def add(line, cls, want, key, nontriv=True):
        lines.append(line)
        exp.append((cls, want, key, nontriv))

    def of4(v, k=0):
        return rm.f12_to4(v, k)

    if kind == 'f4':
        for _ in range(6):
            x, cx = element4(rng)
            y, cy = element4(rng)
            ctx.classes['class/' + cx] += 1
            X, Y = rm.f4_to12(x), rm.f4_to12(y)
            flatx = [x[0][0], x[0][1], x[1][0], x[1][1]]
            ntx = sum(1 for c in flatx if c) >= 2
            add('_ f4.mul %s %s' % (h4(x), h4(y)), 'f4.mul', 'ok ' + h4(of4(fmul(X, Y))), ('f4mul', x, y), ntx)
            for c in f4mul_carries(x, y):
                ctx.classes['carry.f4mul/%d' % c] += 1
            add('_ f4.sqr %s' % h4(x), 'f4.sqr', 'ok ' + h4(of4(fmul(X, X))), ('f4sqr', x), ntx)
            if rng.random() < 0.1:
                x0 = ((0, 0), (0, 0))
                add('_ f4.inv %s' % h4(x0), 'f4.inv/zero', 'none', None, False)
            if any(flatx):
                xi = of4(finv(X))
                add('_ f4.inv %s' % h4(x), 'f4.inv', 'ok ' + h4(xi), ('f4inv', x), ntx)
                one4 = h4(((1, 0), (0, 0)))
                add('t f4.mul %s %s' % (h4(x), h4(xi)), 'f4.mul/cancel', 'ok ' + one4, ('f4mulinv', x), ntx)
                add('_ f4.eq $t %s' % one4, 'f4.mul/cancel', 'bool true', ('f4mulinv-eq', x), ntx)
                add('d f4.sub $t %s' % one4, 'f4.mul/cancel', 'ok ' + h4(((0, 0), (0, 0))), ('f4mulinv-sub', x), ntx)
                add('_ f4.is_zero $d', 'f4.mul/cancel', 'bool true', ('f4mulinv-iz', x), ntx)
            b1 = ((0, 0), y[1])
            add('_ f4.mul_1 %s %s' % (h4(x), h4(b1)), 'f4.mul_1', 'ok ' + h4(of4(fmul(X, rm.f4_to12(b1)))), ('f4mul1', x, y[1]), ntx)
            for code in rng.sample(F4_FROB, 3):
                j, k = code // 10, code % 10
                res = frob(rm.f4_to12(x, k), j)
                want = of4(res, k)
                assert rm.f4_to12(want, k) == res
                add('_ f4.frob %s %d' % (h4(x), code), 'f4.frob/%d' % code, 'ok ' + h4(want), ('f4frob', x, code), ntx)
            s2 = gen.fq2_value(rng)[0]
            add('_ f4.scale %s %s' % (h4(x), rm.F2.enc(s2)), 'f4.scale', 'ok ' + h4(of4(fmul(X, rm.fq2_to12(s2)))), ('f4scale', x, s2), ntx)
            s1 = gen.field_value(rng, q)[0]
            add('_ f4.scale_fq %s %s' % (h4(x), h32(s1)), 'f4.scale_fq', 'ok ' + h4(of4([c * s1 % q for c in X])), ('f4scalefq', x, s1), ntx)
            sv = [0] * 12
            sv[3] = 1
            add('_ f4.nonres %s' % h4(x), 'f4.nonres', 'ok ' + h4(of4(fmul(X, sv))), ('f4nonres', x), ntx)
            add('_ f4.unitary %s' % h4(x), 'f4.unitary', 'ok ' + h4((x[0], rm.f2neg(x[1]))), ('f4unit', x), ntx)
            add('_ f4.add %s %s' % (h4(x), h4(y)), 'f4.add', 'ok ' + h4(of4(fadd(X, Y))), ('f4add', x, y), ntx)
            add('_ f4.sub %s %s' % (h4(x), h4(y)), 'f4.sub', 'ok ' + h4(of4(fsub(X, Y))), ('f4sub', x, y), ntx)
            add('_ f4.neg %s' % h4(x), 'f4.neg', 'ok ' + h4(of4(fneg(X))), ('f4neg', x), ntx)
            add('_ f4.double %s' % h4(x), 'f4.double', 'ok ' + h4(of4(fadd(X, X))), ('f4dbl', x), ntx)
            add('_ f4.triple %s' % h4(x), 'f4.triple', 'ok ' + h4(of4(fadd(X, fadd(X, X)))), ('f4tpl', x), ntx)
            add('_ f4.is_zero %s' % h4(x), 'f4.is_zero', 'bool ' + str(not any(flatx)).lower(), ('f4iz', x), ntx)
    elif kind == 'f12':
        for _ in range(3):
            a, ca = element12(rng)
            b, cb = element12(rng)
            ctx.classes['class/' + ca] += 1
            A, B = h12(a), h12(b)
            add('_ f12.mul %s %s' % (A, B), 'f12.mul', 'ok ' + h12(fmul(a, b)), ('mul', A, B), nz(a))
            add('_ f12.sqr %s' % A, 'f12.sqr', 'ok ' + h12(fmul(a, a)), ('sqr', A), nz(a))
            if any(a):
                ai = finv(a)
                add('_ f12.inv %s' % A, 'f12.inv', 'ok ' + h12(ai), ('inv', A), nz(a))
                # x * x^-1: eleven coefficients cancel exactly to zero although every partial product is non-zero
                add('t f12.mul %s %s' % (A, h12(ai)), 'f12.mul/cancel', 'ok ' + h12(rm.ONE), ('mulinv', A), nz(a))
                # a coordinate left as the unreduced modulus PRINTS as zero: also ask the library's own == and is_zero
                add('_ f12.eq $t %s' % h12(rm.ONE), 'f12.mul/cancel', 'bool true', ('mulinv-eq', A), nz(a))
                add('d f12.sub $t %s' % h12(rm.ONE), 'f12.mul/cancel', 'ok ' + h12(rm.ZERO), ('mulinv-sub', A), nz(a))
                add('_ f12.is_zero $d', 'f12.mul/cancel', 'bool true', ('mulinv-iz', A), nz(a))
            if rng.random() < 0.15:
                add('_ f12.inv %s' % h12(rm.ZERO), 'f12.inv/zero', 'none', None, False)
            # sparse operand for mul_015: c0 arbitrary, c1 = 0, c2 = (0, *)  i.e. coefficients at w^0, w^3, w^6, w^9 and w^5, w^11
            sp = [0] * 12
            for e in (0, 3, 6, 9, 5, 11):
                sp[e] = b[e]
            add('_ f12.mul_015 %s %s' % (A, h12(sp)), 'f12.mul_015', 'ok ' + h12(fmul(a, sp)), ('mul015', A, h12(sp)), nz(a))
            for k in (1, 2, 3, 6):
                add('_ f12.frob %s %d' % (A, k), 'f12.frob/%d' % k, 'ok ' + h12(frob(a, k)), ('frob', A, k), nz(a))
            x4, _c = element4(rng)
            add('_ f12.scale %s %s' % (A, h4(x4)), 'f12.scale', 'ok ' + h12(fmul(a, rm.f4_to12(x4))), ('scale', A, x4), nz(a))
            add('_ f12.nonres %s' % A, 'f12.nonres', 'ok ' + h12(fmul(a, rm.W)), ('nonres', A), nz(a))
            e = rng.choice(EXPS + [rng.getrandbits(128), rng.getrandbits(rng.randrange(1, 129))])
            add('_ f12.pow128 %s %x' % (A, e), 'f12.pow128', 'ok ' + h12(fpow(a, e)), ('pow128', A, e), nz(a))
            if rng.random() < 0.12:
                # an element whose SQUARE (or fourth power) is identity-like: one plus a perturbation confined to one coefficient
                # block - the running square of a square-and-multiply loop then looks like one to a careless is_one test
                near = [0] * 12
                near[0] = 1
                for e_ in rng.choice([[1, 4, 7, 10], [2, 5, 8, 11], [2], [8, 11], [4]]):
                    near[e_] = rng.randrange(1, q)
                rt = rm.f12_sqrt(near)
                if rt is not None and rng.random() < 0.3:
                    rt = rm.f12_sqrt(rt) or rt
                if rt is not None:
                    ctx.classes['class/root-of-near-one'] += 1
                    Rt = h12(rt)
                    for e2 in (2, 3, 4, 9, S, 0x2400000000215d941, 0xd8000000019062ed0000b98b0cb27659):
                        add('_ f12.pow128 %s %x' % (Rt, e2), 'f12.pow128', 'ok ' + h12(fpow(rt, e2)), ('pow128', Rt, e2), True)
                    add('_ f12.powfr %s %s' % (Rt, h32(9)), 'f12.powfr', 'ok ' + h12(fpow(rt, 9)), ('powfr', Rt, 9), True)
            k = gen.scalar_r(rng)[0]
            add('_ f12.powfr %s %s' % (A, h32(k)), 'f12.powfr', 'ok ' + h12(fpow(a, k)), ('powfr', A, k), nz(a))
            add('_ f12.add %s %s' % (A, B), 'f12.add', 'ok ' + h12(fadd(a, b)), ('add', A, B), nz(a))
            add('_ f12.sub %s %s' % (A, B), 'f12.sub', 'ok ' + h12(fsub(a, b)), ('sub', A, B), nz(a))
            add('_ f12.neg %s' % A, 'f12.neg', 'ok ' + h12(fneg(a)), ('neg', A), nz(a))
            add('_ f12.double %s' % A, 'f12.double', 'ok ' + h12(fadd(a, a)), ('dbl', A), nz(a))
            add('_ f12.triple %s' % A, 'f12.triple', 'ok ' + h12(fadd(a, fadd(a, a))), ('tpl', A), nz(a))
            add('_ f12.is_zero %s' % A, 'f12.is_zero', 'bool ' + str(not any(a)).lower(), ('iz', A), nz(a))
    elif kind == 'fexp':
        a, ca = element12(rng)
        ctx.classes['class/' + ca] += 1
        if not any(a):
            a[0] = 1
        A = h12(a)
        full = fpow(a, rm.FINAL_EXP)
        sfx = '/subfield' if ca == 'subfield' else '/non-unitary' if ca != 'unitary' else ''
        add('_ f12.fexp %s' % A, 'f12.fexp', 'ok ' + h12(full), ('fexp', A), nz(a))
        add('_ f12.fexp2 %s' % A, 'f12.fexp2', 'ok ' + h12(full), ('fexp2', A), nz(a))
        if sfx:
            ctx.classes['f12.fexp' + sfx] += 1
        easy = fpow(a, EASY)
        # the split into chunks is an implementation choice: the first chunk alone is only required to return a value,
        # what is judged is last(first(x)) = x^((q^12-1)/r) for both last-chunk variants
        lines.append('u f12.first %s' % A)
        exp.append(('setup', None, None, False))
        ctx.classes['f12.first'] += 1
        add('_ f12.last1 $u', 'f12.last1', 'ok ' + h12(full), ('last1', A), nz(a))
        add('_ f12.last2 $u', 'f12.last2', 'ok ' + h12(full), ('last2', A), nz(a))
        if rng.random() < 0.2:
            add('_ f12.fexp %s' % h12(rm.ZERO), 'f12.fexp/zero', 'none', None, False)
            add('_ f12.fexp2 %s' % h12(rm.ZERO), 'f12.fexp2/zero', 'none', None, False)
            add('_ f12.first %s' % h12(rm.ZERO), 'f12.first/zero', 'none', None, False)
    elif kind == 'miller':
        aa = gen.scalar_r(rng)[0] or 1
        bb = gen.scalar_r(rng)[0] or 1
        P, Q = rm.gmul(1, aa), rm.gmul(2, bb)
        pl, ql = rm.jac_lit(F1, P), rm.jac_lit(F2, Q)
        want = rm.pairing(P, Q)
        # the Jacobian loop takes Q in any representation (z = 1, rescaled by a real / complex lambda, library Jacobian)
        qrep = rng.choice(['aff', 'scaled', 'scaled', 'jac'])
        if qrep == 'scaled':
            qj = rm.jac_lit(F2, Q, gen.lam_for(rng, 2))
        elif qrep == 'jac':
            k1 = rng.randrange(1, r)
            lines.append('qa g2.add %s %s' % (rm.jac_lit(F2, rm.gmul(2, k1)), rm.jac_lit(F2, rm.gmul(2, bb - k1), gen.lam_for(rng, 2))))
            exp.append(('setup', None, None, False))
            qj = '$qa'
        else:
            qj = ql
        ctx.classes['ml.jac/Q-' + qrep] += 1
        lines.append('mj ml.jac %s %s' % (qj, pl))
        exp.append(('ml.jac', ('ml', want), ('mljac', aa, bb, qrep), True))
        lines.append('pp ml.prepraw %s' % ql)
        exp.append(('setup', None, None, False))
        lines.append('mp ml.prep $pp %s' % pl)
        exp.append(('ml.prep', ('ml', want), ('mlprep', aa, bb), True))
    if kind == 'lines':
        return run_lines(ctx, rng)
    ans = ctx.run(lines)
    mls = {}
    dead = set()
    for line, an, (cls, want, key, nontriv) in zip(lines, ans, exp):
        if mon.hook_unavailable(ctx, an, line, dead):
            continue          # this op's hook group does not compile against the tree under test
        if cls == 'setup':
            if not an.startswith('ok '):
                ctx.fail('setup', 'setup line answered %r (%s)' % (an[:100], line[:100]), observed=an, line=line)
            continue
        if isinstance(want, tuple):
            head, _, payload = an.partition(' ')
            good = False
            try:
                if head == 'ok':
                    v = rm.de12(bytes.fromhex(payload))
                    mls[cls] = v
                    good = any(v) and fpow(v, rm.FINAL_EXP) == want[1]
            except Exception:
                good = False
            if good:
                ctx.ok(cls, key)
            else:
                ctx.fail(cls, '%s: the Miller-loop value raised to (q^12-1)/r is not the R-ate pairing (%s…)' % (cls, an[:60]), observed=an, line=line[:300])
            continue
        if an == want:
            ctx.ok(cls, key, nontriv)
        else:
            ctx.fail(cls.split('/')[0], '%s: observed %r…, F_q[w]/(w^12+2) gives %r… (%s…)' % (cls, an[:70], want[:70], line[:90]), observed=an, expected=want, line=line)
    if 'ml.jac' in mls and 'ml.prep' in mls:
        ratio = fmul(mls['ml.jac'], finv(mls['ml.prep']))
        if fpow(ratio, rm.FINAL_EXP) == rm.ONE:
            ctx.ok('ml.agree', ('agree', lines[0][:200]))
        else:
            ctx.fail('ml.agree', 'the two Miller loops differ by a factor that the final exponentiation does not remove', line=lines[0][:300])
    ctx.sample(kind, {'program': [l[:100] for l in lines[:3]], 'answers': [a[:80] for a in ans[:3]]})


# --------------------------------------------------------------------------- individual line functions (optional hooks)
def _retwist(X, Y):
    """(x w^2, y w^3) of a point of E(Fq12) that lies in the image of the twist: back to Fq2 coordinates, or None"""
    w2 = [0] * 12
    w2[2] = 1
    w3 = [0] * 12
    w3[3] = 1
    x = fmul(X, w2)
    y = fmul(Y, w3)
    if any(x[i] for i in range(12) if i not in (0, 6)) or any(y[i] for i in range(12) if i not in (0, 6)):
        return None
    return ((x[0], x[6]), (y[0], y[6]))


def run_lines(ctx, rng):
    """tangent / chord line values of both Miller-loop variants on every representation of the accumulator T (and of Q for the
    Jacobian variant): equal to the textbook line on E(Fq12) up to a factor that the final exponentiation removes"""
    tk = gen.scalar_r(rng)[0] or 1
    qk = gen.scalar_r(rng)[0] or 2
    if (tk - qk) % r == 0 or (tk + qk) % r == 0:
        qk = (qk + 1) % r or 3
    pk = rng.randrange(1, r)
    T, Q, P = rm.gmul(2, tk), rm.gmul(2, qk), rm.gmul(1, pk)
    Tu, Qu = rm.untwist(T), rm.untwist(Q)
    Pu = (rm.fconst(P[0]), rm.fconst(P[1]))
    tan_rm, _ = rm._line(Tu, Tu, Pu)
    chord_rm, _ = rm._line(Tu, Qu, Pu)
    pr = gen.Prog()
    trep = rng.choice(['aff', 'scaled', 'scaled', 'jac'])
    qrep = rng.choice(['aff', 'scaled', 'scaled', 'jac'])
    Treg = gen.point(pr, rng, 2, tk, trep)
    Qreg = gen.point(pr, rng, 2, qk, qrep)
    Qaff = gen.point(pr, rng, 2, qk, 'aff')
    Preg = pr.let('g1.lit', rm.jac_lit(F1, P))[0]
    i_et = pr.emit('_', 'ln.etan', Treg, Preg)
    i_el = pr.emit('_', 'ln.eline', Treg, Qreg, Preg)
    i_pt = pr.emit('_', 'ln.ptan', Treg)
    i_pl = pr.emit('_', 'ln.pline', Treg, Qaff)
    i_p1 = pr.emit('_', 'ln.pi1', Qreg)
    i_p2 = pr.emit('_', 'ln.pi2', Qreg)
    ans = ctx.run(pr.lines)
    if any(a == 'ok unsupported' or a.startswith('bad unknown op ln.') for a in ans):
        ctx.count('line-hooks-unavailable')
        ctx.notes.append('optional line-function hooks not available in this tree')
        return
    for i in range(i_et):
        if not ans[i].startswith('ok '):
            ctx.fail('setup', 'operand construction answered %r for %s' % (ans[i][:100], pr.lines[i][:120]), observed=ans[i], line=pr.lines[i])
            return

    def same_up_to_final_exp(v, ref):
        return any(v) and fpow(fmul(v, finv(ref)), rm.FINAL_EXP) == rm.ONE

    def numden(i, ref, cls):
        an = ans[i]
        try:
            a, b = an[3:].split(' ')
            num, den = rm.de12(bytes.fromhex(a)), rm.de12(bytes.fromhex(b))
            good = any(den) and same_up_to_final_exp(fmul(num, finv(den)), ref)
        except Exception:
            good = False
        if good:
            ctx.ok(cls, (cls, pr.lines[i]))
        else:
            ctx.fail(cls.split('/')[0], '%s: the line value is not the textbook line up to a factor removed by the final exponentiation (T %s, Q %s): %r' % (
                cls, trep, qrep, an[:80]), observed=an[:400], line=pr.lines[i][:600])

    numden(i_et, tan_rm, 'ln.eval_g_tangent/T-' + trep)
    numden(i_el, chord_rm, 'ln.eval_g_line/T-%s' % trep)
    ctx.classes['ln.eval_g_line/Q-' + qrep] += 1
    # prepared variant: coefficients -> sparse element -> same comparison; the accumulator must have moved to 2T resp. T+Q
    second = gen.Prog()
    meta = []
    for i, ref, cls, newpt in ((i_pt, tan_rm, 'ln.g_tangent/T-' + trep, rm.cadd(rm.F2, T, T)), (i_pl, chord_rm, 'ln.g_line/T-' + trep, rm.cadd(rm.F2, T, Q))):
        an = ans[i]
        try:
            c0, c1, c2, tnew = an[3:].split(' ')
            got = rm.jac_affine(rm.F2, rm.jac_parse(rm.F2, tnew))
        except Exception:
            ctx.fail(cls.split('/')[0], '%s: unparsable answer %r' % (cls, an[:100]), observed=an[:300], line=pr.lines[i][:400])
            continue
        if got != newpt:
            ctx.fail(cls.split('/')[0], '%s: the accumulator does not denote the expected point after the step' % cls, observed=an[:300], line=pr.lines[i][:400])
            continue
        j = second.emit('_', 'ln.pval', c0, c1, c2, rm.jac_lit(F1, P))
        meta.append((j, ref, cls, pr.lines[i]))
    if meta:
        ans2 = ctx.run(second.lines)
        for j, ref, cls, src in meta:
            good = False
            try:
                good = ans2[j].startswith('ok ') and same_up_to_final_exp(rm.de12(bytes.fromhex(ans2[j][3:])), ref)
            except Exception:
                good = False
            if good:
                ctx.ok(cls, (cls, src))
            else:
                ctx.fail(cls.split('/')[0], '%s: the prepared line value is not the textbook line up to a factor removed by the final exponentiation (T %s)' % (cls, trep),
                         observed=ans2[j][:300], line=src[:400])
    # Frobenius images of Q on the twist
    for i, k, cls in ((i_p1, 1, 'ln.point_pi1'), (i_p2, 2, 'ln.point_pi2')):
        want = _retwist(frob(Qu[0], k), frob(Qu[1], k))
        try:
            got = rm.jac_affine(rm.F2, rm.jac_parse(rm.F2, ans[i][3:])) if ans[i].startswith('ok ') else 'bad'
        except Exception:
            got = 'bad'
        if want is not None and got == want:
            ctx.ok(cls + '/Q-' + qrep, (cls, pr.lines[i]))
        else:
            ctx.fail(cls, '%s: not the q^%d-power Frobenius image of Q (Q %s)' % (cls, k, qrep), observed=ans[i][:300], line=pr.lines[i][:400])
    ctx.sample('lines', {'program': [l[:100] for l in pr.lines[-6:]], 'answers': [a[:80] for a in ans[-6:]]})
