"""Sanitizer stages of the thorough tier: the monitors' own programs re-executed under AddressSanitizer,
ThreadSanitizer and Miri. A stage returns a report dict
    {name, ran, events, reports, detail, violations: [...]}   or raises runner.Inconclusive (=> recorded as skipped).
A sanitizer report, or an answer that differs from the release executor's, is a violation of the property the stage is
attached to; a tool that cannot run here is a skipped stage, never a failure of the check."""
import concurrent.futures
import importlib
import os
import subprocess
import tempfile
import time

from . import runner
from .runner import Inconclusive, EXEC_DIR, GUARD


# --------------------------------------------------------------------------- differential re-execution under a sanitizer build
def differential(pid, exe, picks, tier, seed, exes, name):
    """picks: list of (module name, spec). Runs every program on the release and on the `exe` executor."""
    path = runner.build(exe)
    exes = dict(exes)
    exes[exe] = path
    if 'release' not in exes:
        exes['release'] = runner.build('release')
    cases = [(exe, m, s) for m, s in picks]
    agg = runner.run_cases('SAN', tier, seed, exes, cases, batch=1)
    viol = []
    for v in agg.violations:
        v = dict(v)
        v['sig'] = '%s|%s' % (name, v['sig'])
        v['msg'] = '[%s stage] %s' % (name, v['msg'])
        viol.append(v)
    if agg.internal:
        raise Inconclusive('stage harness error: ' + agg.internal[0][-400:])
    return {'name': name, 'ran': True, 'events': int(agg.evals), 'reports': int(agg.extra.get('sanitizer-reports', 0)),
            'programs': len(cases), 'differences': int(agg.extra.get('differences', 0)), 'violations': viol}


# --------------------------------------------------------------------------- threaded cold start of the crate's lazy statics
def cold_start(exe, name, runs, threads, exes):
    path = runner.build(exe)
    rel = exes.get('release') or runner.build('release')
    ref = {}
    for t in range(4):
        # single-threaded reference: thread kind t alone
        pass
    out = subprocess.run([rel, '--cold-start', '4'], stdout=subprocess.PIPE, text=True, timeout=120).stdout.split('\n')
    for line in out:
        parts = line.split()
        if len(parts) == 3:
            ref[parts[1]] = parts[2]
    env = dict(os.environ)
    env['TSAN_OPTIONS'] = 'halt_on_error=1:exitcode=66'
    env['ASAN_OPTIONS'] = 'halt_on_error=1:exitcode=77'
    viol, reports, events = [], 0, 0
    for i in range(runs):
        p = subprocess.run([path, '--cold-start', str(threads)], stdout=subprocess.PIPE, stderr=subprocess.PIPE, text=True, env=env, timeout=600)
        if p.returncode in (66, 77) or 'Sanitizer' in p.stderr:
            reports += 1
            viol.append({'sig': name + '|sanitizer-report', 'msg': '[%s] report during threaded cold start: %s' % (name, p.stderr[:1500]),
                         'case': 'cold-start-%d' % i, 'spec': ['cold-start', threads], 'trace': []})
            continue
        if p.returncode != 0:
            raise Inconclusive('cold-start run exited with %d: %s' % (p.returncode, p.stderr[:300]))
        for line in p.stdout.split('\n'):
            parts = line.split()
            if len(parts) == 3:
                events += 1
                if ref.get(parts[1]) != parts[2]:
                    viol.append({'sig': name + '|cold-start-value', 'msg': '[%s] thread kind %s computed %s during a threaded cold start, %s single-threaded' % (
                        name, parts[1], parts[2][:40], str(ref.get(parts[1]))[:40]), 'case': 'cold-start-%d' % i, 'spec': ['cold-start', threads], 'trace': []})
    return {'name': name, 'ran': True, 'events': events, 'reports': reports, 'runs': runs, 'threads': threads, 'violations': viol}


# --------------------------------------------------------------------------- Miri
_MIRI_BUILT = {}


def miri_build():
    if 'ok' in _MIRI_BUILT:
        return
    # same hook set as the release executor of this run (runner.hook_flags(): all hooks unless some do not compile against this tree)
    env = runner._cargo_env({'MIRIFLAGS': '-Zmiri-disable-isolation', 'RUSTFLAGS': runner.hook_flags()})
    prog = os.path.join(EXEC_DIR, 'target-miri', 'warmup.txt')
    os.makedirs(os.path.dirname(prog), exist_ok=True)
    open(prog, 'w').write('_ fr.one\n')
    p = subprocess.run(['cargo', '+nightly', 'miri', 'run', '--target-dir', 'target-miri', '--', '--file', prog], cwd=EXEC_DIR, env=env,
                       stdout=subprocess.PIPE, stderr=subprocess.PIPE, text=True, timeout=1800)
    if p.returncode != 0 or 'ok ' not in p.stdout:
        raise Inconclusive('Miri cannot build/run the executor here: ' + (p.stderr[-600:] or p.stdout[-300:]))
    _MIRI_BUILT['ok'] = True


def miri_run(lines, timeout, extra_flags='', args=None):
    """run a program (or the executor with `args`) under Miri; returns (stdout lines, stderr, returncode)"""
    miri_build()
    env = runner._cargo_env({'MIRIFLAGS': ('-Zmiri-disable-isolation ' + extra_flags).strip(), 'RUSTFLAGS': runner.hook_flags()})
    d = os.path.join(EXEC_DIR, 'target-miri')
    fd, prog = tempfile.mkstemp(prefix='prog-', suffix='.txt', dir=d)
    try:
        with os.fdopen(fd, 'w') as f:
            f.write('\n'.join(lines) + '\n')
        argv = ['cargo', '+nightly', 'miri', 'run', '--target-dir', 'target-miri', '--'] + (args if args else ['--file', prog])
        try:
            p = subprocess.run(argv, cwd=EXEC_DIR, env=env, stdout=subprocess.PIPE, stderr=subprocess.PIPE, text=True, timeout=timeout)
        except subprocess.TimeoutExpired:
            raise Inconclusive('Miri run exceeded %ds' % timeout)
        return [l for l in p.stdout.split('\n') if l], p.stderr, p.returncode
    finally:
        try:
            os.unlink(prog)
        except OSError:
            pass


def _ub(stderr):
    return ('Undefined Behavior' in stderr) or ('data race' in stderr.lower()) or ('error: unsupported' not in stderr and 'error:' in stderr and 'Miri' in stderr)


def miri_programs(name, programs, exes, timeout=1500, jobs=8):
    """programs: list of (label, [lines]). Each is executed by the release executor and under Miri; logs must be identical."""
    miri_build()
    rel = runner.Executor(exes.get('release') or runner.build('release'))
    refs = []
    try:
        for label, lines in programs:
            refs.append(rel.run(lines))
    finally:
        rel.close()
    viol, events, reports, skipped = [], 0, 0, 0

    def one(k):
        label, lines = programs[k]
        return k, miri_run(lines, timeout)

    with concurrent.futures.ThreadPoolExecutor(max_workers=jobs) as tp:
        futs = [tp.submit(one, k) for k in range(len(programs))]
        for f in futs:
            try:
                k, (out, err, rc) = f.result()
            except Inconclusive:
                skipped += 1
                continue
            label, lines = programs[k]
            if 'unsupported operation' in err:
                skipped += 1
                continue
            if _ub(err):
                reports += 1
                viol.append({'sig': name + '|miri-report', 'msg': '[%s] Miri reports undefined behaviour / a data race in program %s: %s' % (name, label, err[-1500:]),
                             'case': label, 'spec': ['miri', label], 'trace': [{'exe': 'miri', 'program': lines, 'answers': out}]})
                continue
            if rc != 0:
                skipped += 1
                continue
            for line, a, b in zip(lines, refs[k], out):
                events += 1
                if a != b:
                    viol.append({'sig': name + '|miri-difference', 'msg': '[%s] %s: release %r, Miri %r' % (name, line[:120], a[:100], b[:100]),
                                 'case': label, 'spec': ['miri', label], 'trace': [{'exe': 'miri', 'program': lines, 'answers': out}]})
                    break
            if len(out) != len(lines):
                viol.append({'sig': name + '|miri-difference', 'msg': '[%s] program %s: Miri produced %d answers for %d lines' % (name, label, len(out), len(lines)),
                             'case': label, 'spec': ['miri', label], 'trace': []})
    if skipped == len(programs):
        raise Inconclusive('no Miri program could be executed')
    return {'name': name, 'ran': True, 'events': events, 'reports': reports, 'programs': len(programs), 'programs_skipped': skipped, 'violations': viol}


def capture_programs(modname, specs, pid, tier, seed, exes, limit_lines=None):
    """run a monitor's cases on the release executor and return the programs it generated: [(label, lines)]"""
    mod = importlib.import_module('vlib.props.' + modname)
    ctx = runner.Ctx(pid, tier, seed, {'release': exes.get('release') or runner.build('release'), 'dev': exes.get('release') or runner.build('release')})
    out = []
    try:
        for i, spec in enumerate(specs):
            ctx.begin('miri-%s-%d' % (modname, i), spec)
            mod.run(ctx, spec)
            seen = set()
            for t in ctx.trace:
                key = tuple(t['program'])
                if key in seen:
                    continue
                seen.add(key)
                lines = t['program'] if limit_lines is None else t['program'][:limit_lines]
                out.append(('%s/%r' % (modname, spec), lines))
    finally:
        ctx.close()
    return out


def miri_cold_start(name, threads=4, seeds=8, timeout=1500):
    out, err, rc = miri_run([], timeout, extra_flags='-Zmiri-many-seeds=0..%d' % seeds, args=['--cold-start', str(threads)])
    if 'unsupported operation' in err:
        raise Inconclusive('Miri: unsupported operation in the threaded cold start')
    viol = []
    if _ub(err) or rc != 0:
        viol.append({'sig': name + '|miri-report', 'msg': '[%s] Miri (many-seeds threaded cold start) failed: %s' % (name, err[-1500:]), 'case': 'miri-cold-start',
                     'spec': ['miri-cold-start', threads, seeds], 'trace': []})
    vals = {}
    for line in out:
        parts = line.split()
        if len(parts) == 3:
            vals.setdefault(parts[1], set()).add(parts[2])
    for k, s in vals.items():
        if len(s) != 1:
            viol.append({'sig': name + '|cold-start-value', 'msg': '[%s] thread kind %s computed different values across schedules: %s' % (name, k, sorted(s)[:3]),
                         'case': 'miri-cold-start', 'spec': ['miri-cold-start', threads, seeds], 'trace': []})
    return {'name': name, 'ran': True, 'events': len(out), 'reports': 1 if (_ub(err) or rc != 0) else 0, 'schedules': seeds, 'threads': threads, 'violations': viol}
