"""Reference model (RM): everything the monitors know about SM9 mathematics.

Plain Python integers, no Montgomery form, no towers, no Jacobian coordinates:
  Fq, Fr      ints mod q / r
  Fq2         pairs (c0, c1) = c0 + c1*u, u^2 = -2, schoolbook; sqrt by Tonelli-Shanks over Fq2
  Fq12        flat list of 12 coefficients over Fq modulo w^12 + 2 (u = w^6); schoolbook product,
              inverse by polynomial extended Euclid, Frobenius by generic powering of w
  curves      affine chord-and-tangent with None as the identity, generic over the coefficient field
  pairing     textbook R-ate pairing of SM9 part 1 annex B.4 on E(Fq12) (no twist tricks, no
              denominator elimination, one generic final exponentiation)
"""
from functools import lru_cache

t = 0x600000000058F98A
q = 36 * t**4 + 36 * t**3 + 24 * t**2 + 6 * t + 1
r = 36 * t**4 + 36 * t**3 + 18 * t**2 + 6 * t + 1
R = 1 << 256
H2 = 2 * q - r            # cofactor of the twist: #E'(Fq2) = r * H2
FINAL_EXP = (q**12 - 1) // r
assert (q**12 - 1) % r == 0
assert q == 0xB640000002A3A6F1D603AB4FF58EC74521F2934B1A7AEEDBE56F9B27E351457D
assert r == 0xB640000002A3A6F1D603AB4FF58EC74449F2934B18EA8BEEE56EE19CD69ECF25

P1 = (0x93DE051D62BF718FF5ED0704487D01D6E1E4086909DC3280E8C4E4817C66DDDD,
      0x21FE8DDA4F21E607631065125C395BBC1C1C00CBFA6024350C464CD70A3EA616)
P2 = ((0x3722755292130B08D2AAB97FD34EC120EE265948D19C17ABF9B7213BAF82D65B,
       0x85AEF3D078640C98597B6027B441A01FF1DD2C190F5E93C454806C11D8806141),
      (0xA7CF28D519BE3DA65F3170153D278FF247EFBA98A71A08116215BBA5C999A7C7,
       0x17509B092E845C1266BA0D262CBEE6ED0736A96FA347C8BD856DC76B84EBEB96))


def h32(x):
    return x.to_bytes(32, 'big').hex()


# ------------------------------------------------------------------ Fq2
def f2add(a, b): return ((a[0] + b[0]) % q, (a[1] + b[1]) % q)
def f2sub(a, b): return ((a[0] - b[0]) % q, (a[1] - b[1]) % q)
def f2neg(a): return ((-a[0]) % q, (-a[1]) % q)
def f2mul(a, b): return ((a[0] * b[0] - 2 * a[1] * b[1]) % q, (a[0] * b[1] + a[1] * b[0]) % q)
def f2sqr(a): return f2mul(a, a)
def f2scale(a, k): return (a[0] * k % q, a[1] * k % q)


def f2inv(a):
    n = pow((a[0] * a[0] + 2 * a[1] * a[1]) % q, -1, q)
    return (a[0] * n % q, (-a[1]) * n % q)


def f2pow(a, e):
    res = (1, 0)
    while e:
        if e & 1:
            res = f2mul(res, a)
        a = f2mul(a, a)
        e >>= 1
    return res


def fq_issq(a, p=q):
    a %= p
    return a == 0 or pow(a, (p - 1) // 2, p) == 1


def fq_sqrt(a):
    """Some square root of a in Fq (q = 5 mod 8) or None; checked by squaring."""
    a %= q
    if a == 0:
        return 0
    if pow(a, (q - 1) // 2, q) != 1:
        return None
    # Tonelli-Shanks with 2-adicity 2
    s = pow(a, (q + 3) // 8, q)
    if s * s % q != a:
        s = s * pow(2, (q - 1) // 4, q) % q
    assert s * s % q == a
    return s


def fq_cuberoot(c):
    """some cube root of c in Fq, or None (3 divides q-1 exactly once)"""
    c %= q
    if c == 0:
        return 0
    m = (q - 1) // 3
    if pow(c, m, q) != 1:
        return None
    x = pow(c, pow(3, -1, m), q)
    assert pow(x, 3, q) == c
    return x


def f2issq(a):
    if a == (0, 0):
        return True
    n = (a[0] * a[0] + 2 * a[1] * a[1]) % q
    return pow(n, (q - 1) // 2, q) == 1


_TS_M = (q * q - 1) // 8
assert (q * q - 1) % 8 == 0 and _TS_M % 2 == 1


@lru_cache(maxsize=None)
def _ts_nonresidue_pow():
    k = 1
    z = (k, 1)
    while f2issq(z):
        k += 1
        z = (k, 1)
    return f2pow(z, _TS_M)


def f2sqrt(a):
    """Tonelli-Shanks in Fq2 (2-adicity of q^2-1 is 3): some root or None."""
    if a == (0, 0):
        return (0, 0)
    if not f2issq(a):
        return None
    c = _ts_nonresidue_pow()
    tt = f2pow(a, _TS_M)
    root = f2pow(a, (_TS_M + 1) // 2)
    m = 3
    while tt != (1, 0):
        i = 0
        t2 = tt
        while t2 != (1, 0):
            t2 = f2mul(t2, t2)
            i += 1
        b = c
        for _ in range(m - i - 1):
            b = f2mul(b, b)
        m = i
        c = f2mul(b, b)
        tt = f2mul(tt, c)
        root = f2mul(root, b)
    assert f2mul(root, root) == a
    return root


# ------------------------------------------------------------------ Fq12 flat
N = 12


def fadd(a, b): return [(x + y) % q for x, y in zip(a, b)]
def fsub(a, b): return [(x - y) % q for x, y in zip(a, b)]
def fneg(a): return [(-x) % q for x in a]


def fmul(a, b):
    c = [0] * (2 * N - 1)
    for i, x in enumerate(a):
        if x == 0:
            continue
        for j, y in enumerate(b):
            if y:
                c[i + j] += x * y
    for k in range(2 * N - 2, N - 1, -1):
        c[k - N] -= 2 * c[k]
    return [x % q for x in c[:N]]


def fconst(x): return [x % q] + [0] * (N - 1)


ONE = fconst(1)
ZERO = fconst(0)


def fpow(a, e):
    res = ONE
    base = a
    while e:
        if e & 1:
            res = fmul(res, base)
        e >>= 1
        if e:
            base = fmul(base, base)
    return res


def _pdeg(p):
    d = len(p) - 1
    while d >= 0 and p[d] % q == 0:
        d -= 1
    return d


def _pdivmod(a, b):
    a = a[:]
    db = _pdeg(b)
    inv = pow(b[db], -1, q)
    qt = [0] * max(1, len(a))
    while _pdeg(a) >= db:
        da = _pdeg(a)
        c = a[da] * inv % q
        qt[da - db] = c
        for i in range(db + 1):
            a[da - db + i] = (a[da - db + i] - c * b[i]) % q
    return qt, a


def _pmul(a, b):
    c = [0] * (len(a) + len(b) - 1)
    for i, x in enumerate(a):
        for j, y in enumerate(b):
            c[i + j] = (c[i + j] + x * y) % q
    return c


def _psub(a, b):
    n = max(len(a), len(b))
    a = a + [0] * (n - len(a))
    b = b + [0] * (n - len(b))
    return [(x - y) % q for x, y in zip(a, b)]


def finv(a):
    """Inverse in Fq[w]/(w^12+2) by the extended Euclidean algorithm; None for zero."""
    if _pdeg(a) < 0:
        return None
    m = [2] + [0] * 11 + [1]
    r0, r1 = m, a[:]
    s0, s1 = [0], [1]
    while _pdeg(r1) > 0:
        qt, rem = _pdivmod(r0, r1)
        r0, r1 = r1, rem
        s0, s1 = s1, _psub(s0, _pmul(qt, s1))
    assert _pdeg(r1) == 0
    c = pow(r1[0], -1, q)
    s = [x * c % q for x in s1]
    if len(s) < 13:
        s = s + [0] * (13 - len(s))
    _, s = _pdivmod(s, m)
    res = (s + [0] * N)[:N]
    return res


W = [0, 1] + [0] * 10


@lru_cache(maxsize=None)
def _frob_table(k):
    """w^(i*q^k) for i in 0..11, by generic powering."""
    wq = fpow(W, q**k)
    tab = [ONE]
    for _ in range(1, N):
        tab.append(fmul(tab[-1], wq))
    return tab


def frob(a, k=1):
    tab = _frob_table(k)
    res = [0] * N
    for i, x in enumerate(a):
        if x:
            ti = tab[i]
            for j in range(N):
                if ti[j]:
                    res[j] += x * ti[j]
    return [x % q for x in res]


def f2_cuberoot(c):
    """some cube root in Fq2, or None (3 divides q^2-1 exactly once)"""
    if c == (0, 0):
        return (0, 0)
    n = q * q - 1
    m = n // 3
    if f2pow(c, m) != (1, 0):
        return None
    x = f2pow(c, pow(3, -1, m))
    assert f2mul(f2mul(x, x), x) == c
    return x


@lru_cache(maxsize=None)
def _f12_ts_consts():
    n = q**12 - 1
    s = 0
    while n % 2 == 0:
        n //= 2
        s += 1
    z = list(W)
    k = 1
    while fpow(z, (q**12 - 1) // 2) == ONE:
        k += 1
        z = [k, 1] + [0] * 10
    return s, n, tuple(fpow(z, n))


def f12_sqrt(a):
    """Tonelli-Shanks in Fq12 (2-adicity of q^12-1 is 4): some square root, or None"""
    if not any(a):
        return list(ZERO)
    s, m, c = _f12_ts_consts()
    c = list(c)
    t = fpow(a, m)
    root = fpow(a, (m + 1) // 2)
    M = s
    while t != ONE:
        i, t2 = 0, t
        while t2 != ONE:
            t2 = fmul(t2, t2)
            i += 1
            if i >= M:
                return None
        b = c
        for _ in range(M - i - 1):
            b = fmul(b, b)
        M = i
        c = fmul(b, b)
        t = fmul(t, c)
        root = fmul(root, b)
    return root if fmul(root, root) == [x % q for x in a] else None


# tower <-> flat.  crate: Fq12 = c0 + c1 v + c2 v^2 (Fq4), Fq4 = c0 + c1 s (Fq2), Fq2 = c0 + c1 u,
# v^3 = s, s^2 = u, u^2 = -2  =>  v = w, s = w^3, u = w^6; coefficient c[i].c[j].c[k] sits at w^(i+3j+6k).
# to_slice writes c2|c1|c0, each Fq4 as c1|c0, each Fq2 as c1|c0  => exponents below.
ORDER = [11, 5, 8, 2, 10, 4, 7, 1, 9, 3, 6, 0]
assert ORDER == [i + 3 * j + 6 * k for i in (2, 1, 0) for j in (1, 0) for k in (1, 0)]


def ser12(a):
    return b''.join(a[k].to_bytes(32, 'big') for k in ORDER)


def de12(b):
    """384 bytes -> flat element; coefficients are NOT reduced (caller checks < q)."""
    assert len(b) == 384
    a = [0] * N
    for n, k in enumerate(ORDER):
        a[k] = int.from_bytes(b[32 * n:32 * n + 32], 'big')
    return a


# Fq4 flat view (for the hooks): element c0 + c1 s, s^2 = u; to_slice = c1.c1|c1.c0|c0.c1|c0.c0
def f4_to12(x, vpow=0):
    """x = ((a,b),(c,d)) meaning (a + b u) + (c + d u) s, placed at v^vpow."""
    (a, b), (c, d) = x
    o = [0] * N
    o[vpow + 0] = a % q
    o[vpow + 6] = b % q
    o[vpow + 3] = c % q
    o[vpow + 9] = d % q
    return o


def f12_to4(o, vpow=0):
    return ((o[vpow], o[vpow + 6]), (o[vpow + 3], o[vpow + 9]))


def ser4(x):
    (a, b), (c, d) = x
    return b''.join(v.to_bytes(32, 'big') for v in (d, c, b, a))


def de4(bts):
    d, c, b, a = (int.from_bytes(bts[32 * i:32 * i + 32], 'big') for i in range(4))
    return ((a, b), (c, d))


# ------------------------------------------------------------------ curves
class F1:
    zero = 0
    one = 1
    b = 5
    add = staticmethod(lambda a, b: (a + b) % q)
    sub = staticmethod(lambda a, b: (a - b) % q)
    mul = staticmethod(lambda a, b: a * b % q)
    neg = staticmethod(lambda a: (-a) % q)
    inv = staticmethod(lambda a: pow(a, -1, q))
    enc = staticmethod(h32)
    width = 64


class F2:
    zero = (0, 0)
    one = (1, 0)
    b = (0, 5)
    add = staticmethod(f2add)
    sub = staticmethod(f2sub)
    mul = staticmethod(f2mul)
    neg = staticmethod(f2neg)
    inv = staticmethod(f2inv)
    enc = staticmethod(lambda x: h32(x[1]) + h32(x[0]))   # imaginary part first
    width = 128


def dec1(s): return int(s, 16)
def dec2(s): return (int(s[64:], 16), int(s[:64], 16))


F1.dec = staticmethod(dec1)
F2.dec = staticmethod(dec2)


def cadd(F, P, Q):
    if P is None:
        return Q
    if Q is None:
        return P
    x1, y1 = P
    x2, y2 = Q
    if x1 == x2:
        if F.add(y1, y2) == F.zero:
            return None
        three = F.add(F.one, F.add(F.one, F.one))
        lam = F.mul(F.mul(three, F.mul(x1, x1)), F.inv(F.add(y1, y1)))
    else:
        lam = F.mul(F.sub(y2, y1), F.inv(F.sub(x2, x1)))
    x3 = F.sub(F.sub(F.mul(lam, lam), x1), x2)
    y3 = F.sub(F.mul(lam, F.sub(x1, x3)), y1)
    return (x3, y3)


def cneg(F, P):
    return None if P is None else (P[0], F.neg(P[1]))


def cmul(F, k, P):
    """Plain left-to-right double-and-add over affine arithmetic, any non-negative integer k."""
    res = None
    for i in range(k.bit_length() - 1, -1, -1):
        res = cadd(F, res, res)
        if (k >> i) & 1:
            res = cadd(F, res, P)
    return res


def oncurve(F, P):
    return P is None or F.mul(P[1], P[1]) == F.add(F.mul(F.mul(P[0], P[0]), P[0]), F.b)


@lru_cache(maxsize=None)
def _gen_table(which):
    F, G = (F1, P1) if which == 1 else (F2, P2)
    tab = [G]
    for _ in range(255):
        tab.append(cadd(F, tab[-1], tab[-1]))
    return tab


@lru_cache(maxsize=200000)
def gmul(which, k):
    """[k mod r] * generator of G1 (which=1) or G2 (which=2): sum of precomputed [2^i]G, affine adds."""
    F = F1 if which == 1 else F2
    k %= r
    tab = _gen_table(which)
    res = None
    i = 0
    while k:
        if k & 1:
            res = cadd(F, res, tab[i])
        k >>= 1
        i += 1
    return res


def g1(k): return gmul(1, k)
def g2(k): return gmul(2, k)


def jac_lit(F, P, lam=None):
    """Hex literal x|y|z of affine point P, optionally rescaled by lam: (lam^2 x, lam^3 y, lam)."""
    if lam is None:
        lam = F.one
    l2 = F.mul(lam, lam)
    l3 = F.mul(l2, lam)
    return F.enc(F.mul(P[0], l2)) + F.enc(F.mul(P[1], l3)) + F.enc(lam)


def jac_parse(F, s):
    """'x|y|z' hex -> (x, y, z) field elements."""
    w = F.width
    if len(s) != 3 * w:
        raise ValueError('jacobian triple has wrong length %d' % len(s))
    return F.dec(s[:w]), F.dec(s[w:2 * w]), F.dec(s[2 * w:])


def jac_affine(F, xyz):
    x, y, z = xyz
    if z == F.zero:
        return None
    zi = F.inv(z)
    zi2 = F.mul(zi, zi)
    return (F.mul(x, zi2), F.mul(y, F.mul(zi2, zi)))


def jac_oncurve(F, xyz):
    """y^2 = x^3 + b z^6 (holds for any z, including the identity forms (rho^2, rho^3, 0))."""
    x, y, z = xyz
    z2 = F.mul(z, z)
    z6 = F.mul(F.mul(z2, z2), z2)
    return F.mul(y, y) == F.add(F.mul(F.mul(x, x), x), F.mul(F.b, z6))


# ------------------------------------------------------------------ textbook R-ate pairing
def fq2_to12(c):
    v = [0] * N
    v[0] = c[0] % q
    v[6] = c[1] % q
    return v


@lru_cache(maxsize=None)
def _winv():
    wi = finv(W)
    w2 = fmul(wi, wi)
    return w2, fmul(w2, wi)


def untwist(Qt):
    """psi: E'(Fq2) -> E(Fq12), (x', y') -> (x' w^-2, y' w^-3)."""
    w2, w3 = _winv()
    return (fmul(fq2_to12(Qt[0]), w2), fmul(fq2_to12(Qt[1]), w3))


def e12_oncurve(P):
    x, y = P
    return fmul(y, y) == fadd(fmul(fmul(x, x), x), fconst(5))


def _line(T, V, P):
    """l_{T,V}(P) on E(Fq12) and T+V."""
    x1, y1 = T
    x2, y2 = V
    xp, yp = P
    if x1 == x2 and fadd(y1, y2) == ZERO:
        return fsub(xp, x1), None
    if x1 == x2:
        lam = fmul(fmul(fconst(3), fmul(x1, x1)), finv(fadd(y1, y1)))
    else:
        lam = fmul(fsub(y2, y1), finv(fsub(x2, x1)))
    val = fsub(fsub(yp, y1), fmul(lam, fsub(xp, x1)))
    x3 = fsub(fsub(fmul(lam, lam), x1), x2)
    y3 = fsub(fmul(lam, fsub(x1, x3)), y1)
    return val, (x3, y3)


def miller(P1a, Qt):
    """f_{6t+2,Q}(P) * l_{[6t+2]Q, pi(Q)}(P) * l_{[6t+2]Q+pi(Q), -pi^2(Q)}(P) before final exponentiation."""
    P = (fconst(P1a[0]), fconst(P1a[1]))
    Q = untwist(Qt)
    a = 6 * t + 2
    f = ONE
    T = Q
    for i in range(a.bit_length() - 2, -1, -1):
        l, T2 = _line(T, T, P)
        f = fmul(fmul(f, f), l)
        T = T2
        if (a >> i) & 1:
            l, T2 = _line(T, Q, P)
            f = fmul(f, l)
            T = T2
    Q1 = (frob(Q[0]), frob(Q[1]))
    Q2 = (frob(Q1[0]), frob(Q1[1]))
    l, T = _line(T, Q1, P)
    f = fmul(f, l)
    nQ2 = (Q2[0], fneg(Q2[1]))
    l, T = _line(T, nQ2, P)
    f = fmul(f, l)
    return f


def pairing(P1a, Qt):
    """R-ate pairing of affine P in E(Fq) and affine Q' on the twist; None is the identity."""
    if P1a is None or Qt is None:
        return ONE
    return fpow(miller(P1a, Qt), FINAL_EXP)


@lru_cache(maxsize=None)
def gbase():
    """e(P1, P2) by the textbook pairing."""
    return tuple(pairing(P1, P2))


@lru_cache(maxsize=100000)
def gt_pow_base(e):
    return tuple(fpow(list(gbase()), e % r))


# ------------------------------------------------------------------ misc helpers for monitors
def mont(a, p):
    """stored Montgomery representative of value a"""
    return a * R % p


def unmont(m, p):
    """value whose stored Montgomery representative is m"""
    return m * pow(R, -1, p) % p


def selftest():
    """Internal consistency of the model; returns a list of failed items (empty = fine)."""
    bad = []
    if not (oncurve(F1, P1) and oncurve(F2, P2)):
        bad.append('generators on curve')
    if cmul(F1, r, P1) is not None or cmul(F2, r, P2) is not None:
        bad.append('generator order')
    if gmul(1, 12345) != cmul(F1, 12345, P1) or gmul(2, r - 3) != cmul(F2, r - 3, P2):
        bad.append('fixed-base table')
    # the three published vectors present in the repository's own tests, every limb
    from . import kat
    ks = kat.KS
    g = pairing(P1, g2(ks))
    if any(g[e] != v for e, v in kat.V1_LIMBS.items()):
        bad.append('standard vector e(P1, [ks]P2)')
    if ser12(fpow(g, kat.RR)).hex().upper() != kat.V3_GPOWR:
        bad.append('standard vector e(P1, [ks]P2)^r')
    g_v2 = pairing(kat.V2_P, kat.V2_Q)
    if any(g_v2[e] != v for e, v in kat.V2_LIMBS.items()):
        bad.append('standard vector e(RA, deB)')
    if list(gt_pow_base(ks)) != g:
        bad.append('bilinearity of the model')
    if fpow(g, r) != ONE or list(gbase()) == ONE:
        bad.append('order of pairing value')
    Q = untwist(P2)
    if not e12_oncurve(Q) or not e12_oncurve((frob(Q[0]), frob(Q[1]))):
        bad.append('untwist / frobenius on E(Fq12)')
    x = (0x1234567, 0x7654321)
    s = f2sqrt(f2mul(x, x))
    if s is None or f2mul(s, s) != f2mul(x, x):
        bad.append('Tonelli-Shanks')
    a = [(i * 0x9E3779B97F4A7C15 + 7) % q for i in range(12)]
    if fmul(a, finv(a)) != ONE:
        bad.append('Fq12 inverse')
    if frob(a, 2) != frob(frob(a)) or fpow(a, q) != frob(a):
        bad.append('Fq12 frobenius')
    if de12(ser12(a)) != a or de4(ser4(f12_to4(a))) != f12_to4(a):
        bad.append('serialisation tables')
    return bad


if __name__ == '__main__':
    import time
    t0 = time.time()
    b = selftest()
    print('RM selftest:', 'ok' if not b else b, '%.2fs' % (time.time() - t0))
    raise SystemExit(1 if b else 0)
