#!/bin/sh
# Offline setup: build the release and dev executors against /repo's working tree, self-test the reference model.
set -e
cd "$(dirname "$0")"
export CARGO_NET_OFFLINE=true
(cd executor && cargo build --release && cargo build)
python3 -m vlib.rm
