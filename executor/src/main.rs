//! sm9exec — a deliberately dumb line-protocol interpreter over sm9_core's API.
//!
//! One program line = one call into sm9_core (wrapped in catch_unwind) = one answer line.
//!   line   :=  <dst> <op> <arg>...          dst is a register name or `_`
//!   arg    :=  $reg | literal (hex, `-` for the empty byte string, decimal for integers)
//!   answer :=  ok <repr> | bool true|false | bytes <hex> | none | err <Debug> |
//!              panic <message> | bad <why>   (protocol error: unknown op, missing register…)
//! The interpreter does no arithmetic of its own: values are printed through the crate's own
//! `to_slice` of each coordinate and literals are parsed with the crate's constructors.
use sm9_core::*;
use std::collections::HashMap;
use std::io::{BufRead, Write};
use std::panic::{catch_unwind, AssertUnwindSafe};

#[cfg(john_yu_sm9_core_verif)]
mod hooks;

#[derive(Clone)]
pub enum Val {
    Fr(Fr),
    Fq(Fq),
    Fq2(Fq2),
    G1(G1),
    G2(G2),
    Gt(Gt),
    A1(AffineG1),
    A2(AffineG2),
    Prep(G2Prepared),
    #[cfg(john_yu_sm9_core_verif)]
    F4(sm9_core::verif_hooks::Fq4),
    #[cfg(john_yu_sm9_core_verif)]
    F12(sm9_core::verif_hooks::Fq12),
}

pub enum Out {
    V(Val),
    Bool(bool),
    Bytes(Vec<u8>),
    None,
    Err(String),
    Text(String),
}

pub type Regs = HashMap<String, Val>;
pub type R = Result<Out, String>; // Err(String) = protocol error ("bad …")

pub fn hx(b: &[u8]) -> String {
    let mut s = String::with_capacity(b.len() * 2);
    for x in b {
        s.push_str(&format!("{:02x}", x));
    }
    s
}
pub fn unhex(s: &str) -> Result<Vec<u8>, String> {
    if s == "-" {
        return Ok(vec![]);
    }
    if s.len() % 2 != 0 {
        return Err(format!("odd hex length {}", s.len()));
    }
    (0..s.len() / 2)
        .map(|i| u8::from_str_radix(&s[2 * i..2 * i + 2], 16).map_err(|e| format!("hex: {}", e)))
        .collect()
}

// ---------- literals: parsed through the crate's own canonical constructors ----------
fn lit_fq(s: &str) -> Result<Fq, String> {
    let b = unhex(s)?;
    if b.len() != 32 {
        return Err("fq literal must be 32 bytes".into());
    }
    let f = Fq::from_slice(&b).ok_or("fq literal rejected")?;
    if f.to_slice()[..] != b[..] {
        return Err("literal fq does not round-trip".into());
    }
    Ok(f)
}
fn lit_fr(s: &str) -> Result<Fr, String> {
    let b = unhex(s)?;
    if b.len() != 32 {
        return Err("fr literal must be 32 bytes".into());
    }
    let f = Fr::from_slice(&b).ok_or("fr literal rejected")?;
    if f.to_slice()[..] != b[..] {
        return Err("literal fr does not round-trip".into());
    }
    Ok(f)
}
fn lit_fq2(s: &str) -> Result<Fq2, String> {
    if s.len() != 128 {
        return Err("fq2 literal must be 64 bytes".into());
    }
    Ok(Fq2::new(lit_fq(&s[64..])?, lit_fq(&s[..64])?)) // imaginary first
}
fn lit_g1(s: &str) -> Result<G1, String> {
    if s.len() != 192 {
        return Err("g1 literal must be 96 bytes".into());
    }
    Ok(G1::new(lit_fq(&s[..64])?, lit_fq(&s[64..128])?, lit_fq(&s[128..])?))
}
fn lit_g2(s: &str) -> Result<G2, String> {
    if s.len() != 384 {
        return Err("g2 literal must be 192 bytes".into());
    }
    Ok(G2::new(lit_fq2(&s[..128])?, lit_fq2(&s[128..256])?, lit_fq2(&s[256..])?))
}

macro_rules! getter {
    ($name:ident, $var:ident, $ty:ty, $lit:expr) => {
        pub fn $name(regs: &Regs, t: &str) -> Result<$ty, String> {
            if let Some(n) = t.strip_prefix('$') {
                match regs.get(n) {
                    Some(Val::$var(v)) => Ok(v.clone()),
                    Some(_) => Err(format!("register {} has another type", n)),
                    None => Err(format!("noreg {}", n)),
                }
            } else {
                $lit(t)
            }
        }
    };
}
fn nolit<T>(_: &str) -> Result<T, String> {
    Err("no literal form for this type".into())
}
getter!(a_fr, Fr, Fr, lit_fr);
getter!(a_fq, Fq, Fq, lit_fq);
getter!(a_fq2, Fq2, Fq2, lit_fq2);
getter!(a_g1, G1, G1, lit_g1);
getter!(a_g2, G2, G2, lit_g2);
getter!(a_a1, A1, AffineG1, nolit);
getter!(a_a2, A2, AffineG2, nolit);
getter!(a_prep, Prep, G2Prepared, nolit);
#[cfg(not(john_yu_sm9_core_verif))]
getter!(a_gt, Gt, Gt, nolit);
#[cfg(john_yu_sm9_core_verif)]
getter!(a_gt, Gt, Gt, hooks::lit_gt);

pub fn a_bytes(t: &str) -> Result<Vec<u8>, String> {
    unhex(t)
}
pub fn a_usize(t: &str) -> Result<usize, String> {
    t.parse::<usize>().map_err(|e| format!("usize: {}", e))
}
pub fn a_bool(t: &str) -> Result<bool, String> {
    match t {
        "0" | "false" => Ok(false),
        "1" | "true" => Ok(true),
        _ => Err("bool".into()),
    }
}

pub fn g1s(g: &G1) -> String {
    format!("{}{}{}", hx(&g.x().to_slice()), hx(&g.y().to_slice()), hx(&g.z().to_slice()))
}
pub fn g2s(g: &G2) -> String {
    format!("{}{}{}", hx(&g.x().to_slice()), hx(&g.y().to_slice()), hx(&g.z().to_slice()))
}
fn show(v: &Val) -> String {
    match v {
        Val::Fr(x) => hx(&x.to_slice()),
        Val::Fq(x) => hx(&x.to_slice()),
        Val::Fq2(x) => hx(&x.to_slice()),
        Val::G1(g) => g1s(g),
        Val::G2(g) => g2s(g),
        Val::Gt(g) => hx(&g.to_slice()),
        Val::A1(a) => format!("{}{}", hx(&a.x().to_slice()), hx(&a.y().to_slice())),
        Val::A2(a) => format!("{}{}", hx(&a.x().to_slice()), hx(&a.y().to_slice())),
        Val::Prep(_p) => {
            #[cfg(all(john_yu_sm9_core_verif, not(john_yu_sm9_core_verif_skip_prep)))]
            {
                format!("prepared {}", sm9_core::verif_hooks::prepared_len(_p))
            }
            #[cfg(not(all(john_yu_sm9_core_verif, not(john_yu_sm9_core_verif_skip_prep))))]
            {
                "prepared".to_string()
            }
        }
        #[cfg(john_yu_sm9_core_verif)]
        Val::F4(x) => hx(&x.to_slice()),
        #[cfg(john_yu_sm9_core_verif)]
        Val::F12(x) => hx(&x.to_slice()),
    }
}

/// A scripted RNG: hands out the given u64 words in order, cycling.
pub struct ScriptRng {
    words: Vec<u64>,
    i: usize,
}
impl ScriptRng {
    fn parse(spec: &str) -> Result<Self, String> {
        let words: Result<Vec<u64>, _> =
            spec.split(',').map(|w| u64::from_str_radix(w, 16)).collect();
        let words = words.map_err(|e| format!("rng spec: {}", e))?;
        if words.is_empty() {
            return Err("rng spec empty".into());
        }
        Ok(ScriptRng { words, i: 0 })
    }
}
impl rand::RngCore for ScriptRng {
    fn next_u32(&mut self) -> u32 {
        self.next_u64() as u32
    }
    fn next_u64(&mut self) -> u64 {
        let w = self.words[self.i % self.words.len()];
        self.i += 1;
        w
    }
    fn fill_bytes(&mut self, dest: &mut [u8]) {
        for chunk in dest.chunks_mut(8) {
            let w = self.next_u64().to_le_bytes();
            chunk.copy_from_slice(&w[..chunk.len()]);
        }
    }
    fn try_fill_bytes(&mut self, dest: &mut [u8]) -> Result<(), rand::Error> {
        self.fill_bytes(dest);
        Ok(())
    }
}

fn opt<T>(o: Option<T>, f: impl Fn(T) -> Val) -> R {
    Ok(match o {
        Some(v) => Out::V(f(v)),
        None => Out::None,
    })
}

// the six operator forms of a binary operator: vv rv vr rr (value/reference operands), av ar (compound assignment)
macro_rules! binop {
    ($form:expr, $a:expr, $b:expr, $op:tt, $opa:tt) => {{
        let (a, b) = ($a, $b);
        match $form {
            "vv" => a $op b,
            "rv" => &a $op b,
            "vr" => a $op &b,
            "rr" => &a $op &b,
            "av" => { let mut t = a; t $opa b; t }
            "ar" => { let mut t = a; t $opa &b; t }
            _ => return Err("operator form".into()),
        }
    }};
}

macro_rules! field_common {
    ($regs:expr, $p:expr, $opname:expr, $T:ident, $arg:ident) => {{
        let p: &[&str] = $p;
        let (base, form) = match $opname.rsplit_once('.') {
            Some((b, f)) if ["vv", "rv", "vr", "rr", "av", "ar", "v", "r"].contains(&f) => (b, f),
            _ => ($opname, ""),
        };
        match base {
            "lit" => Some(Ok(Out::V(Val::$T($arg($regs, p[0])?)))),
            "zero" => Some(Ok(Out::V(Val::$T($T::zero())))),
            "one" => Some(Ok(Out::V(Val::$T($T::one())))),
            "add" => Some(Ok(Out::V(Val::$T(binop!(form, $arg($regs, p[0])?, $arg($regs, p[1])?, +, +=))))),
            "sub" => Some(Ok(Out::V(Val::$T(binop!(form, $arg($regs, p[0])?, $arg($regs, p[1])?, -, -=))))),
            "mul" => Some(Ok(Out::V(Val::$T(binop!(form, $arg($regs, p[0])?, $arg($regs, p[1])?, *, *=))))),
            "neg" => {
                let a = $arg($regs, p[0])?;
                Some(Ok(Out::V(Val::$T(if form == "r" { -&a } else { -a }))))
            }
            "eq" => Some(Ok(Out::Bool($arg($regs, p[0])? == $arg($regs, p[1])?))),
            "ne" => Some(Ok(Out::Bool($arg($regs, p[0])? != $arg($regs, p[1])?))),
            "is_zero" => Some(Ok(Out::Bool($arg($regs, p[0])?.is_zero()))),
            "to_slice" => Some(Ok(Out::Bytes($arg($regs, p[0])?.to_slice().to_vec()))),
            "from_slice" => Some(opt($T::from_slice(&a_bytes(p[0])?), Val::$T)),
            // composite observation: x == from_slice(to_slice(x))
            "rt_eq" => {
                let x = $arg($regs, p[0])?;
                Some(Ok(match $T::from_slice(&x.to_slice()) {
                    Some(y) => Out::Bool(x == y),
                    None => Out::None,
                }))
            }
            "try_from" => Some(Ok(match $T::try_from(&a_bytes(p[0])?[..]) {
                Ok(v) => Out::V(Val::$T(v)),
                Err(e) => Out::Err(format!("{:?}", e)),
            })),
            _ => None,
        }
    }};
}

macro_rules! prime_common {
    ($regs:expr, $p:expr, $opname:expr, $T:ident, $arg:ident) => {{
        let p: &[&str] = $p;
        match $opname {
            "inverse" => Some(opt($arg($regs, p[0])?.inverse(), Val::$T)),
            "pow" => Some(Ok(Out::V(Val::$T($arg($regs, p[0])?.pow($arg($regs, p[1])?))))),
            "interpret" => {
                let b = a_bytes(p[0])?;
                if b.len() != 64 {
                    return Err("interpret needs 64 bytes".into());
                }
                let mut buf = [0u8; 64];
                buf.copy_from_slice(&b);
                Some(Ok(Out::V(Val::$T($T::interpret(&buf)))))
            }
            "from_str" => {
                let b = a_bytes(p[0])?;
                let s = String::from_utf8(b).map_err(|_| "from_str needs utf-8")?;
                Some(Ok(match $T::from_str(&s) {
                    Ok(v) => Out::V(Val::$T(v)),
                    Err(e) => Out::Err(format!("{:?}", e)),
                }))
            }
            "into_bytes.v" => {
                let b: [u8; 32] = $arg($regs, p[0])?.into();
                Some(Ok(Out::Bytes(b.to_vec())))
            }
            _ => None,
        }
    }};
}

macro_rules! group_common {
    ($regs:expr, $p:expr, $opname:expr, $G:ident, $garg:ident, $F:ident, $farg:ident, $gs:ident, $A:ident, $AV:ident, $aarg:ident) => {{
        let p: &[&str] = $p;
        let res = |r: Result<$G, CurveError>| -> R {
            Ok(match r {
                Ok(g) => Out::V(Val::$G(g)),
                Err(e) => Out::Err(format!("{:?}", e)),
            })
        };
        match $opname {
            "lit" => Some(Ok(Out::V(Val::$G($garg($regs, p[0])?)))),
            "new" => Some(Ok(Out::V(Val::$G($G::new($farg($regs, p[0])?, $farg($regs, p[1])?, $farg($regs, p[2])?))))),
            "x" => Some(Ok(Out::V(Val::$F($garg($regs, p[0])?.x())))),
            "y" => Some(Ok(Out::V(Val::$F($garg($regs, p[0])?.y())))),
            "z" => Some(Ok(Out::V(Val::$F($garg($regs, p[0])?.z())))),
            "set_x" => { let mut g = $garg($regs, p[0])?; g.set_x($farg($regs, p[1])?); Some(Ok(Out::V(Val::$G(g)))) }
            "set_y" => { let mut g = $garg($regs, p[0])?; g.set_y($farg($regs, p[1])?); Some(Ok(Out::V(Val::$G(g)))) }
            "set_z" => { let mut g = $garg($regs, p[0])?; g.set_z($farg($regs, p[1])?); Some(Ok(Out::V(Val::$G(g)))) }
            "b" => Some(Ok(Out::V(Val::$F($G::b())))),
            "zero" => Some(Ok(Out::V(Val::$G($G::zero())))),
            "one" => Some(Ok(Out::V(Val::$G($G::one())))),
            "is_zero" => Some(Ok(Out::Bool($garg($regs, p[0])?.is_zero()))),
            "normalize" => { let mut g = $garg($regs, p[0])?; g.normalize(); Some(Ok(Out::V(Val::$G(g)))) }
            "add" => Some(Ok(Out::V(Val::$G($garg($regs, p[0])? + $garg($regs, p[1])?)))),
            "sub" => Some(Ok(Out::V(Val::$G($garg($regs, p[0])? - $garg($regs, p[1])?)))),
            "neg" => Some(Ok(Out::V(Val::$G(-$garg($regs, p[0])?)))),
            "mul" => Some(Ok(Out::V(Val::$G($garg($regs, p[0])? * a_fr($regs, p[1])?)))),
            "rmul" => Some(Ok(Out::V(Val::$G(a_fr($regs, p[0])? * $garg($regs, p[1])?)))),
            "eq" => Some(Ok(Out::Bool($garg($regs, p[0])? == $garg($regs, p[1])?))),
            "ne" => Some(Ok(Out::Bool($garg($regs, p[0])? != $garg($regs, p[1])?))),
            "from_slice" => Some(res($G::from_slice(&a_bytes(p[0])?))),
            "from_uncompressed" => Some(res($G::from_uncompressed(&a_bytes(p[0])?))),
            "from_compressed" => Some(res($G::from_compressed(&a_bytes(p[0])?))),
            // composite observations: decode(encode(P)) in one of the three formats
            "rt_slice" => Some(res($G::from_slice(&$garg($regs, p[0])?.to_slice()))),
            "rt_uncompressed" => Some(res($G::from_uncompressed(&$garg($regs, p[0])?.to_uncompressed()))),
            "rt_compressed" => Some(res($G::from_compressed(&$garg($regs, p[0])?.to_compressed()))),
            "to_slice" => Some(Ok(Out::Bytes($garg($regs, p[0])?.to_slice().to_vec()))),
            "to_uncompressed" => Some(Ok(Out::Bytes($garg($regs, p[0])?.to_uncompressed().to_vec()))),
            "to_compressed" => Some(Ok(Out::Bytes($garg($regs, p[0])?.to_compressed().to_vec()))),
            // affine companion type
            "aff.new" => Some(Ok(match $A::new($farg($regs, p[0])?, $farg($regs, p[1])?) {
                Ok(a) => Out::V(Val::$AV(a)),
                Err(e) => Out::Err(format!("{:?}", e)),
            })),
            "aff.from_jacobian" => Some(opt($A::from_jacobian($garg($regs, p[0])?), Val::$AV)),
            "aff.x" => Some(Ok(Out::V(Val::$F($aarg($regs, p[0])?.x())))),
            "aff.y" => Some(Ok(Out::V(Val::$F($aarg($regs, p[0])?.y())))),
            "aff.set_x" => { let mut a = $aarg($regs, p[0])?; a.set_x($farg($regs, p[1])?); Some(Ok(Out::V(Val::$AV(a)))) }
            "aff.set_y" => { let mut a = $aarg($regs, p[0])?; a.set_y($farg($regs, p[1])?); Some(Ok(Out::V(Val::$AV(a)))) }
            "aff.to_g" => Some(Ok(Out::V(Val::$G($aarg($regs, p[0])?.into())))),
            "aff.eq" => Some(Ok(Out::Bool($aarg($regs, p[0])? == $aarg($regs, p[1])?))),
            _ => None,
        }
    }};
}

fn need(p: &[&str], n: usize) -> Result<(), String> {
    if p.len() < n {
        Err(format!("needs {} arguments", n))
    } else {
        Ok(())
    }
}

fn arity(op: &str) -> usize {
    // minimal arity table so that a short line is a protocol error, not an index panic
    let base = op.split('.').nth(1).unwrap_or("");
    match base {
        "zero" | "one" | "b" => 0,
        "add" | "sub" | "mul" | "eq" | "ne" | "pow" | "rmul" | "set_x" | "set_y" | "set_z"
        | "to_big_endian" | "pairing" | "frob" | "pow128" | "powfr" | "mul_015" | "mul_1"
        | "scale" | "scale_fq" | "jac" => 2,
        "new" => 2,
        "set_bit" => 3,
        _ => 1,
    }
}

fn exec(regs: &Regs, op: &str, p: &[&str]) -> R {
    let (ns, rest) = op.split_once('.').unwrap_or((op, ""));
    match ns {
        "fr" => {
            need(p, arity(op))?;
            if let Some(r) = field_common!(regs, p, rest, Fr, a_fr) {
                return r;
            }
            if let Some(r) = prime_common!(regs, p, rest, Fr, a_fr) {
                return r;
            }
            match rest {
                "into_bytes.r" => {
                    let v = a_fr(regs, p[0])?;
                    let b: [u8; 32] = (&v).into();
                    Ok(Out::Bytes(b.to_vec()))
                }
                "from_hash" => opt(Fr::from_hash(&a_bytes(p[0])?), Val::Fr),
                "set_bit" => {
                    let mut v = a_fr(regs, p[0])?;
                    v.set_bit(a_usize(p[1])?, a_bool(p[2])?);
                    Ok(Out::V(Val::Fr(v)))
                }
                "random" => {
                    let mut rng = ScriptRng::parse(p[0])?;
                    Ok(Out::V(Val::Fr(Fr::random(&mut rng))))
                }
                #[cfg(all(john_yu_sm9_core_verif, not(john_yu_sm9_core_verif_skip_raw)))]
                "raw" => Ok(Out::Bytes(hooks::limbs_be(sm9_core::verif_hooks::fr_limbs(&a_fr(regs, p[0])?)))),
                _ => Err(format!("unknown op {}", op)),
            }
        }
        "fq" => {
            need(p, arity(op))?;
            if let Some(r) = field_common!(regs, p, rest, Fq, a_fq) {
                return r;
            }
            if let Some(r) = prime_common!(regs, p, rest, Fq, a_fq) {
                return r;
            }
            match rest {
                "is_even" => Ok(Out::Bool(a_fq(regs, p[0])?.is_even())),
                "sqrt" => opt(a_fq(regs, p[0])?.sqrt(), Val::Fq),
                "to_big_endian" => {
                    let n = a_usize(p[1])?;
                    let mut buf = vec![0xA5u8; n];
                    Ok(match a_fq(regs, p[0])?.to_big_endian(&mut buf) {
                        Ok(()) => Out::Bytes(buf),
                        Err(e) => Out::Err(format!("{:?}", e)),
                    })
                }
                #[cfg(all(john_yu_sm9_core_verif, not(john_yu_sm9_core_verif_skip_raw)))]
                "raw" => Ok(Out::Bytes(hooks::limbs_be(sm9_core::verif_hooks::fq_limbs(&a_fq(regs, p[0])?)))),
                _ => Err(format!("unknown op {}", op)),
            }
        }
        "fq2" => {
            need(p, arity(op))?;
            if let Some(r) = field_common!(regs, p, rest, Fq2, a_fq2) {
                return r;
            }
            match rest {
                "new" => Ok(Out::V(Val::Fq2(Fq2::new(a_fq(regs, p[0])?, a_fq(regs, p[1])?)))),
                "real" => Ok(Out::V(Val::Fq(a_fq2(regs, p[0])?.real()))),
                "imaginary" => Ok(Out::V(Val::Fq(a_fq2(regs, p[0])?.imaginary()))),
                "is_even" => Ok(Out::Bool(a_fq2(regs, p[0])?.is_even())),
                "sqrt" => opt(a_fq2(regs, p[0])?.sqrt(), Val::Fq2),
                "into_bytes.v" => {
                    let b: [u8; 64] = a_fq2(regs, p[0])?.into();
                    Ok(Out::Bytes(b.to_vec()))
                }
                _ => Err(format!("unknown op {}", op)),
            }
        }
        "g1" => {
            let n = match rest { "new" => 3, "aff.new" | "aff.set_x" | "aff.set_y" | "aff.eq" => 2, _ => arity(op) };
            need(p, n)?;
            group_common!(regs, p, rest, G1, a_g1, Fq, a_fq, g1s, AffineG1, A1, a_a1)
                .unwrap_or_else(|| Err(format!("unknown op {}", op)))
        }
        "g2" => {
            let n = match rest { "new" => 3, "aff.new" | "aff.set_x" | "aff.set_y" | "aff.eq" => 2, _ => arity(op) };
            need(p, n)?;
            group_common!(regs, p, rest, G2, a_g2, Fq2, a_fq2, g2s, AffineG2, A2, a_a2)
                .unwrap_or_else(|| Err(format!("unknown op {}", op)))
        }
        "gt" => {
            need(p, arity(op))?;
            match rest {
                "one" => Ok(Out::V(Val::Gt(Gt::one()))),
                "lit" => Ok(Out::V(Val::Gt(a_gt(regs, p[0])?))),
                "pow" => Ok(Out::V(Val::Gt(a_gt(regs, p[0])?.pow(a_fr(regs, p[1])?)))),
                "inverse" => opt(a_gt(regs, p[0])?.inverse(), Val::Gt),
                "to_slice" => Ok(Out::Bytes(a_gt(regs, p[0])?.to_slice().to_vec())),
                "mul" => Ok(Out::V(Val::Gt(a_gt(regs, p[0])? * a_gt(regs, p[1])?))),
                "eq" => Ok(Out::Bool(a_gt(regs, p[0])? == a_gt(regs, p[1])?)),
                "ne" => Ok(Out::Bool(a_gt(regs, p[0])? != a_gt(regs, p[1])?)),
                _ => Err(format!("unknown op {}", op)),
            }
        }
        "pair" => {
            need(p, 2)?;
            match rest {
                "pairing" => Ok(Out::V(Val::Gt(pairing(a_g1(regs, p[0])?, a_g2(regs, p[1])?)))),
                "fast" => Ok(Out::V(Val::Gt(fast_pairing(a_g1(regs, p[0])?, a_g2(regs, p[1])?)))),
                // one-shot prepared pairing: G2Prepared::from(Q).pairing(&P)
                "prepared" => Ok(Out::V(Val::Gt(G2Prepared::from(a_g2(regs, p[1])?).pairing(&a_g1(regs, p[0])?)))),
                _ => Err(format!("unknown op {}", op)),
            }
        }
        "prep" => match rest {
            "from" => {
                need(p, 1)?;
                Ok(Out::V(Val::Prep(G2Prepared::from(a_g2(regs, p[0])?))))
            }
            "clone" => {
                need(p, 1)?;
                Ok(Out::V(Val::Prep(a_prep(regs, p[0])?)))
            }
            // prep.pairing $pp P  — uses the register's value in place (by reference), never a copy
            "pairing" => {
                need(p, 2)?;
                let g1 = a_g1(regs, p[1])?;
                let name = p[0].strip_prefix('$').ok_or("prep.pairing needs a register")?;
                match regs.get(name) {
                    Some(Val::Prep(pp)) => Ok(Out::V(Val::Gt(pp.pairing(&g1)))),
                    _ => Err(format!("noreg {}", name)),
                }
            }
            // prep.par <threads> $pp P1 P2 …  — every thread pairs every Pi with the SAME shared &G2Prepared,
            // each thread starting at a different offset; answer: thread0;thread1;… each a ,-list of Gt bytes
            "par" => {
                need(p, 3)?;
                let nt = a_usize(p[0])?;
                let name = p[1].strip_prefix('$').ok_or("prep.par needs a register")?;
                let pp = match regs.get(name) {
                    Some(Val::Prep(pp)) => pp,
                    _ => return Err(format!("noreg {}", name)),
                };
                let pts: Result<Vec<G1>, String> = p[2..].iter().map(|t| a_g1(regs, t)).collect();
                let pts = pts?;
                let outs: Vec<String> = std::thread::scope(|s| {
                    let hs: Vec<_> = (0..nt)
                        .map(|t| {
                            let pts = &pts;
                            s.spawn(move || {
                                let n = pts.len();
                                let mut res = vec![String::new(); n];
                                for k in 0..n {
                                    let i = (k + t) % n;
                                    res[i] = hx(&pp.pairing(&pts[i]).to_slice());
                                }
                                res.join(",")
                            })
                        })
                        .collect();
                    hs.into_iter().map(|h| h.join().unwrap_or_else(|_| "panic".into())).collect()
                });
                Ok(Out::Text(outs.join(";")))
            }
            _ => Err(format!("unknown op {}", op)),
        },
        #[cfg(john_yu_sm9_core_verif)]
        "f4" | "f12" | "ml" | "raw" | "sop" | "ln" => hooks::exec(regs, op, p),
        "nop" => Ok(Out::Text("nop".into())),
        _ => Err(format!("unknown op {}", op)),
    }
}

fn panic_msg(e: Box<dyn std::any::Any + Send>) -> String {
    e.downcast_ref::<String>()
        .cloned()
        .or(e.downcast_ref::<&str>().map(|s| s.to_string()))
        .unwrap_or_else(|| "<non-string panic>".into())
        .replace('\n', " ")
}

fn run_line(regs: &mut Regs, line: &str) -> String {
    let parts: Vec<&str> = line.split_ascii_whitespace().collect();
    if parts.len() < 2 {
        return "bad short line".into();
    }
    let (dst, op, args) = (parts[0], parts[1], &parts[2..]);
    let r = catch_unwind(AssertUnwindSafe(|| exec(regs, op, args)));
    let (text, store) = match r {
        Err(e) => (format!("panic {}", panic_msg(e)), None),
        Ok(Err(why)) => (format!("bad {}", why), None),
        Ok(Ok(out)) => match out {
            Out::V(v) => (format!("ok {}", show(&v)), Some(v)),
            Out::Bool(b) => (format!("bool {}", b), None),
            Out::Bytes(b) => (format!("bytes {}", if b.is_empty() { "-".to_string() } else { hx(&b) }), None),
            Out::None => ("none".to_string(), None),
            Out::Err(e) => (format!("err {}", e), None),
            Out::Text(t) => (format!("ok {}", t), None),
        },
    };
    // a call that produced no value (None, Err, panic, protocol error) leaves the destination register as it was
    if dst != "_" {
        if let Some(v) = store {
            regs.insert(dst.to_string(), v);
        }
    }
    text
}

/// `--cold-start N`: N threads released together, each making a different first call into the crate,
/// so that the crate's lazily initialised constants are raced. Prints one line per thread.
fn cold_start(n: usize) {
    use std::sync::{Arc, Barrier};
    let bar = Arc::new(Barrier::new(n));
    let hs: Vec<_> = (0..n)
        .map(|t| {
            let bar = bar.clone();
            std::thread::spawn(move || {
                bar.wait();
                match t % 4 {
                    0 => hx(&(G1::one() * Fr::from_str("7").unwrap()).to_slice()),
                    1 => hx(&(Fq::from_str("3").unwrap().sqrt().map(|x| x.to_slice()).unwrap_or([0u8; 32]))),
                    2 => hx(&G2::one().to_compressed()),
                    _ => hx(&(Fr::from_str("5").unwrap().inverse().unwrap()).to_slice()),
                }
            })
        })
        .collect();
    for (t, h) in hs.into_iter().enumerate() {
        println!("thread {} {}", t % 4, h.join().unwrap_or_else(|_| "panic".into()));
    }
}

fn main() {
    std::panic::set_hook(Box::new(|_| {}));
    let args: Vec<String> = std::env::args().collect();
    if args.len() >= 3 && args[1] == "--cold-start" {
        cold_start(args[2].parse().unwrap());
        return;
    }
    let input: Box<dyn BufRead> = if args.len() >= 3 && args[1] == "--file" {
        Box::new(std::io::BufReader::new(std::fs::File::open(&args[2]).expect("program file")))
    } else {
        Box::new(std::io::BufReader::new(std::io::stdin()))
    };
    let stdout = std::io::stdout();
    let mut regs: Regs = HashMap::new();
    let mut par_threads: usize = 0;
    let mut par_reps: usize = 1;
    let mut par_lines: Vec<String> = Vec::new();
    for line in input.lines() {
        let line = match line {
            Ok(l) => l,
            Err(_) => break,
        };
        let line = line.trim();
        if line.is_empty() {
            continue;
        }
        if line == "!reset" {
            regs.clear();
            let mut o = stdout.lock();
            let _ = writeln!(o, "ok reset");
            let _ = o.flush();
            continue;
        }
        // `!par N` … `!endpar`: the enclosed lines are executed by N threads at once, each on its own copy of the register file,
        // all released together; one answer per line is printed: the common answer, or `par-mismatch …` if the threads disagree
        if let Some(n) = line.strip_prefix("!par ") {
            let mut it = n.split_ascii_whitespace();
            par_threads = it.next().and_then(|v| v.parse().ok()).unwrap_or(0);
            par_reps = it.next().and_then(|v| v.parse().ok()).unwrap_or(1);
            par_lines.clear();
            continue;
        }
        if line == "!endpar" {
            let n = par_threads.max(1);
            // the block is executed `par_reps` times (fresh threads each time); the first repetition in which the threads
            // disagree is the one reported
            let mut results: Vec<(Vec<String>, Regs)> = Vec::new();
            for _rep in 0..par_reps.max(1) {
            let bar = std::sync::Arc::new(std::sync::Barrier::new(n));
            results = std::thread::scope(|sc| {
                let hs: Vec<_> = (0..n)
                    .enumerate()
                    .map(|(t, _)| {
                        let mut r = regs.clone();
                        let lines = &par_lines;
                        let bar = bar.clone();
                        sc.spawn(move || {
                            // a scratch pass over the same lines in REVERSE order (answers discarded, own registers) runs before the
                            // judged pass on odd threads and after it on even threads, so that different calls overlap in time
                            let scratch = |base: &Regs| {
                                let mut s = base.clone();
                                for l in lines.iter().rev() {
                                    let _ = run_line(&mut s, l);
                                }
                            };
                            bar.wait();
                            if t % 2 == 1 {
                                scratch(&r);
                            }
                            let out: Vec<String> = lines.iter().map(|l| run_line(&mut r, l)).collect();
                            if t % 2 == 0 {
                                scratch(&r);
                            }
                            (out, r)
                        })
                    })
                    .collect();
                hs.into_iter().map(|h| h.join().unwrap_or_else(|_| (vec![], HashMap::new()))).collect()
            });
            let disagree = (0..par_lines.len()).any(|i| results.iter().any(|(v, _)| v.get(i) != results[0].0.get(i)));
            if disagree {
                break;
            }
            }
            let mut o = stdout.lock();
            for i in 0..par_lines.len() {
                let first = results[0].0.get(i).cloned().unwrap_or_else(|| "died".into());
                if results.iter().all(|(v, _)| v.get(i) == Some(&first)) {
                    let _ = writeln!(o, "{}", first);
                } else {
                    // every thread's full answer, tab-separated: the monitor decides whether they are the same observation
                    let all: Vec<String> = results.iter().map(|(v, _)| v.get(i).cloned().unwrap_or_default()).collect();
                    let _ = writeln!(o, "par-mismatch {}", all.join("\t"));
                }
            }
            let _ = o.flush();
            if let Some((_, r)) = results.into_iter().next() {
                regs = r;
            }
            par_threads = 0;
            par_lines.clear();
            continue;
        }
        if par_threads > 0 {
            par_lines.push(line.to_string());
            continue;
        }
        let ans = run_line(&mut regs, line);
        let mut o = stdout.lock();
        let _ = writeln!(o, "{}", ans);
        let _ = o.flush();
    }
}
