//! Ops that need the cfg(john_yu_sm9_core_verif) hooks: raw limbs, the internal tower, the final
//! exponentiation steps and the two Miller loops.
//!
//! Every op that names a private method beyond the basic ring operations of Fq4 / Fq12 belongs to a group that can be
//! compiled out with `--cfg john_yu_sm9_core_verif_skip_<group>` (f4x, f12x, pow, powfr, fexpm, fexp, ml, fqx, sop, raw, prep):
//! when the tree under test has refactored that method, the runner drops the group and the op answers `bad unknown op`.
use crate::*;
use sm9_core::verif_hooks as vh;
use sm9_core::verif_hooks::{FieldElement, Fq12, Fq4, GroupElement, RawFq, RawFq2};

pub fn limbs_be(l: [u64; 4]) -> Vec<u8> {
    let mut v = Vec::with_capacity(32);
    for i in (0..4).rev() {
        v.extend_from_slice(&l[i].to_be_bytes());
    }
    v
}

fn raw_fq(b: &[u8]) -> Result<RawFq, String> {
    RawFq::from_slice(b).ok_or_else(|| "raw fq literal not below q".to_string())
}
fn raw_fq2(b: &[u8]) -> Result<RawFq2, String> {
    Ok(RawFq2::new(raw_fq(&b[32..64])?, raw_fq(&b[..32])?)) // imaginary first
}
fn raw_fq4(b: &[u8]) -> Result<Fq4, String> {
    Ok(Fq4::new(raw_fq2(&b[64..128])?, raw_fq2(&b[..64])?)) // c1 | c0
}
fn raw_fq12(b: &[u8]) -> Result<Fq12, String> {
    Ok(Fq12::new(raw_fq4(&b[256..384])?, raw_fq4(&b[128..256])?, raw_fq4(&b[..128])?)) // c2 | c1 | c0
}
fn lit_f4(s: &str) -> Result<Fq4, String> {
    let b = unhex(s)?;
    if b.len() != 128 {
        return Err("f4 literal must be 128 bytes".into());
    }
    let v = raw_fq4(&b)?;
    if v.to_slice()[..] != b[..] {
        return Err("literal f4 does not round-trip".into());
    }
    Ok(v)
}
fn lit_f12(s: &str) -> Result<Fq12, String> {
    let b = unhex(s)?;
    if b.len() != 384 {
        return Err("f12 literal must be 384 bytes".into());
    }
    let v = raw_fq12(&b)?;
    if v.to_slice()[..] != b[..] {
        return Err("literal f12 does not round-trip".into());
    }
    Ok(v)
}
pub fn lit_gt(s: &str) -> Result<Gt, String> {
    Ok(vh::gt_from(lit_f12(s)?))
}

fn a_f4(regs: &Regs, t: &str) -> Result<Fq4, String> {
    if let Some(n) = t.strip_prefix('$') {
        match regs.get(n) {
            Some(Val::F4(v)) => Ok(*v),
            Some(_) => Err(format!("register {} has another type", n)),
            None => Err(format!("noreg {}", n)),
        }
    } else {
        lit_f4(t)
    }
}
fn a_f12(regs: &Regs, t: &str) -> Result<Fq12, String> {
    if let Some(n) = t.strip_prefix('$') {
        match regs.get(n) {
            Some(Val::F12(v)) => Ok(*v),
            Some(Val::Gt(g)) => Ok(vh::gt_inner(g)),
            Some(_) => Err(format!("register {} has another type", n)),
            None => Err(format!("noreg {}", n)),
        }
    } else {
        lit_f12(t)
    }
}
fn a_u128(t: &str) -> Result<u128, String> {
    u128::from_str_radix(t, 16).map_err(|e| format!("u128: {}", e))
}
fn rfq(regs: &Regs, t: &str) -> Result<RawFq, String> {
    Ok(vh::fq_inner(&a_fq(regs, t)?))
}
fn rfq2(regs: &Regs, t: &str) -> Result<RawFq2, String> {
    Ok(vh::fq2_inner(&a_fq2(regs, t)?))
}
fn vfq(x: RawFq) -> R {
    Ok(Out::V(Val::Fq(vh::fq_from(x))))
}
fn vfq2(x: RawFq2) -> R {
    Ok(Out::V(Val::Fq2(vh::fq2_from(x))))
}
fn v4(x: Fq4) -> R {
    Ok(Out::V(Val::F4(x)))
}
fn v12(x: Fq12) -> R {
    Ok(Out::V(Val::F12(x)))
}

pub fn exec(regs: &Regs, op: &str, p: &[&str]) -> R {
    let n = match op {
        "f4.zero" | "f4.one" | "f12.zero" | "f12.one" => 0,
        "f4.add" | "f4.sub" | "f4.mul" | "f4.mul_1" | "f4.frob" | "f4.scale" | "f4.scale_fq" | "f4.new" | "f4.eq"
        | "f12.add" | "f12.sub" | "f12.mul" | "f12.mul_015" | "f12.frob" | "f12.scale" | "f12.pow128"
        | "f12.powfr" | "f12.eq" | "ml.jac" | "ml.prep" | "raw.fq2.scale" | "ln.etan" | "ln.pline" => 2,
        "f12.new" | "ln.eline" => 3,
        "ln.pval" => 4,
        "sop.2" => 4,
        "sop.4" => 8,
        _ => 1,
    };
    if p.len() < n {
        return Err(format!("needs {} arguments", n));
    }
    match op {
        // ---------------- Fq4 ----------------
        "f4.lit" => v4(a_f4(regs, p[0])?),
        "f4.zero" => v4(Fq4::zero()),
        "f4.one" => v4(Fq4::one()),
        "f4.new" => v4(Fq4::new(rfq2(regs, p[0])?, rfq2(regs, p[1])?)),
        "f4.add" => v4(a_f4(regs, p[0])? + a_f4(regs, p[1])?),
        "f4.sub" => v4(a_f4(regs, p[0])? - a_f4(regs, p[1])?),
        "f4.mul" => v4(a_f4(regs, p[0])? * a_f4(regs, p[1])?),
        "f4.neg" => v4(-a_f4(regs, p[0])?),
        "f4.sqr" => v4(a_f4(regs, p[0])?.squared()),
        "f4.double" => v4(a_f4(regs, p[0])?.double()),
        "f4.triple" => v4(a_f4(regs, p[0])?.triple()),
        "f4.inv" => Ok(match a_f4(regs, p[0])?.inverse() {
            Some(v) => Out::V(Val::F4(v)),
            None => Out::None,
        }),
        #[cfg(not(john_yu_sm9_core_verif_skip_f4x))]
        "f4.mul_1" => v4(a_f4(regs, p[0])?.mul_1(&a_f4(regs, p[1])?)),
        #[cfg(not(john_yu_sm9_core_verif_skip_f4x))]
        "f4.frob" => v4(a_f4(regs, p[0])?.frobenius_map(a_usize(p[1])?)),
        #[cfg(not(john_yu_sm9_core_verif_skip_f4x))]
        "f4.scale" => v4(a_f4(regs, p[0])?.scale(&rfq2(regs, p[1])?)),
        #[cfg(not(john_yu_sm9_core_verif_skip_f4x))]
        "f4.scale_fq" => v4(a_f4(regs, p[0])?.scale_fq(&rfq(regs, p[1])?)),
        #[cfg(not(john_yu_sm9_core_verif_skip_f4x))]
        "f4.nonres" => v4(a_f4(regs, p[0])?.mul_by_nonresidue()),
        #[cfg(not(john_yu_sm9_core_verif_skip_f4x))]
        "f4.unitary" => v4(a_f4(regs, p[0])?.unitary_inverse()),
        "f4.is_zero" => Ok(Out::Bool(a_f4(regs, p[0])?.is_zero())),
        "f4.eq" => Ok(Out::Bool(a_f4(regs, p[0])? == a_f4(regs, p[1])?)),
        // ---------------- Fq12 ----------------
        "f12.lit" => v12(a_f12(regs, p[0])?),
        "f12.zero" => v12(Fq12::zero()),
        "f12.one" => v12(Fq12::one()),
        "f12.new" => v12(Fq12::new(a_f4(regs, p[0])?, a_f4(regs, p[1])?, a_f4(regs, p[2])?)),
        "f12.add" => v12(a_f12(regs, p[0])? + a_f12(regs, p[1])?),
        "f12.sub" => v12(a_f12(regs, p[0])? - a_f12(regs, p[1])?),
        "f12.mul" => v12(a_f12(regs, p[0])? * a_f12(regs, p[1])?),
        "f12.neg" => v12(-a_f12(regs, p[0])?),
        "f12.sqr" => v12(a_f12(regs, p[0])?.squared()),
        "f12.double" => v12(a_f12(regs, p[0])?.double()),
        "f12.triple" => v12(a_f12(regs, p[0])?.triple()),
        "f12.inv" => Ok(match a_f12(regs, p[0])?.inverse() {
            Some(v) => Out::V(Val::F12(v)),
            None => Out::None,
        }),
        #[cfg(not(john_yu_sm9_core_verif_skip_f12x))]
        "f12.mul_015" => v12(a_f12(regs, p[0])?.mul_015(&a_f12(regs, p[1])?)),
        #[cfg(not(john_yu_sm9_core_verif_skip_f12x))]
        "f12.frob" => v12(a_f12(regs, p[0])?.frobenius_map(a_usize(p[1])?)),
        #[cfg(not(john_yu_sm9_core_verif_skip_f12x))]
        "f12.scale" => v12(a_f12(regs, p[0])?.scale(&a_f4(regs, p[1])?)),
        #[cfg(not(john_yu_sm9_core_verif_skip_f12x))]
        "f12.nonres" => v12(a_f12(regs, p[0])?.mul_by_nonresidue()),
        #[cfg(not(john_yu_sm9_core_verif_skip_pow))]
        "f12.pow128" => v12(vh::fq12_pow_u128(&a_f12(regs, p[0])?, a_u128(p[1])?)),
        #[cfg(not(john_yu_sm9_core_verif_skip_powfr))]
        "f12.powfr" => v12(FieldElement::pow(&a_f12(regs, p[0])?, vh::fr_inner(&a_fr(regs, p[1])?))),
        "f12.is_zero" => Ok(Out::Bool(a_f12(regs, p[0])?.is_zero())),
        "f12.eq" => Ok(Out::Bool(a_f12(regs, p[0])? == a_f12(regs, p[1])?)),
        #[cfg(not(john_yu_sm9_core_verif_skip_fexpm))]
        "f12.fexp" => Ok(match a_f12(regs, p[0])?.final_exponentiation() {
            Some(v) => Out::V(Val::F12(v)),
            None => Out::None,
        }),
        #[cfg(not(john_yu_sm9_core_verif_skip_fexpm))]
        "f12.fexp2" => Ok(match a_f12(regs, p[0])?.final_exp() {
            Some(v) => Out::V(Val::F12(v)),
            None => Out::None,
        }),
        #[cfg(not(john_yu_sm9_core_verif_skip_fexp))]
        "f12.first" => Ok(match vh::final_exp_first_chunk(&a_f12(regs, p[0])?) {
            Some(v) => Out::V(Val::F12(v)),
            None => Out::None,
        }),
        #[cfg(not(john_yu_sm9_core_verif_skip_fexp))]
        "f12.last1" => v12(vh::final_exponentiation_last_chunk(&a_f12(regs, p[0])?)),
        #[cfg(not(john_yu_sm9_core_verif_skip_fexp))]
        "f12.last2" => v12(vh::final_exp_last_chunk(&a_f12(regs, p[0])?)),
        "f12.to_gt" => Ok(Out::V(Val::Gt(vh::gt_from(a_f12(regs, p[0])?)))),
        // ---------------- Miller loops ----------------
        // ml.jac Q P : Jacobian numerator/denominator loop on the stored representation of Q; P must have z = 1
        #[cfg(not(john_yu_sm9_core_verif_skip_ml))]
        "ml.jac" => v12(vh::g2_inner(&a_g2(regs, p[0])?).miller_loop(&vh::g1_inner(&a_g1(regs, p[1])?))),
        // ml.prepraw Q : coefficients computed from the stored representation (the public From<G2> normalises first)
        #[cfg(not(john_yu_sm9_core_verif_skip_ml))]
        "ml.prepraw" => Ok(Out::V(Val::Prep(vh::G2Prepared::from(vh::g2_inner(&a_g2(regs, p[0])?))))),
        #[cfg(not(john_yu_sm9_core_verif_skip_ml))]
        "ml.prep" => {
            let g1 = vh::g1_inner(&a_g1(regs, p[1])?);
            Ok(Out::V(Val::F12(a_prep(regs, p[0])?.miller_loop(&g1))))
        }
        // ---------------- raw base-field and Fq2 helpers used inside point / pairing arithmetic ----------------
        #[cfg(not(john_yu_sm9_core_verif_skip_fqx))]
        "raw.fq.sqr" => vfq(rfq(regs, p[0])?.squared()),
        #[cfg(not(john_yu_sm9_core_verif_skip_fqx))]
        "raw.fq.double" => vfq(rfq(regs, p[0])?.double()),
        #[cfg(not(john_yu_sm9_core_verif_skip_fqx))]
        "raw.fq.triple" => vfq(rfq(regs, p[0])?.triple()),
        #[cfg(not(john_yu_sm9_core_verif_skip_fqx))]
        "raw.fq.div2" => vfq(rfq(regs, p[0])?.div2()),
        #[cfg(not(john_yu_sm9_core_verif_skip_fqx))]
        "raw.fq2.sqr" => vfq2(rfq2(regs, p[0])?.squared()),
        #[cfg(not(john_yu_sm9_core_verif_skip_fqx))]
        "raw.fq2.double" => vfq2(rfq2(regs, p[0])?.double()),
        #[cfg(not(john_yu_sm9_core_verif_skip_fqx))]
        "raw.fq2.triple" => vfq2(rfq2(regs, p[0])?.triple()),
        #[cfg(not(john_yu_sm9_core_verif_skip_fqx))]
        "raw.fq2.div2" => vfq2(rfq2(regs, p[0])?.div2()),
        #[cfg(not(john_yu_sm9_core_verif_skip_fqx))]
        "raw.fq2.nonres" => vfq2(rfq2(regs, p[0])?.mul_by_nonresidue()),
        #[cfg(not(john_yu_sm9_core_verif_skip_fqx))]
        "raw.fq2.unitary" => vfq2(rfq2(regs, p[0])?.unitary_inverse()),
        #[cfg(not(john_yu_sm9_core_verif_skip_fqx))]
        "raw.fq2.scale" => vfq2(rfq2(regs, p[0])?.scale(&rfq(regs, p[1])?)),
        #[cfg(not(john_yu_sm9_core_verif_skip_fqx))]
        "raw.fq2.inv" => Ok(match rfq2(regs, p[0])?.inverse() {
            Some(v) => Out::V(Val::Fq2(vh::fq2_from(v))),
            None => Out::None,
        }),
        #[cfg(not(john_yu_sm9_core_verif_skip_fqx))]
        "raw.g1.double" => Ok(Out::V(Val::G1(vh::g1_from(vh::g1_inner(&a_g1(regs, p[0])?).double())))),
        #[cfg(not(john_yu_sm9_core_verif_skip_fqx))]
        "raw.g2.double" => Ok(Out::V(Val::G2(vh::g2_from(vh::g2_inner(&a_g2(regs, p[0])?).double())))),
        // ---------------- individual line functions of the two Miller loops (optional hooks) ----------------
        #[cfg(john_yu_sm9_core_verif_lines)]
        "ln.etan" | "ln.eline" | "ln.ptan" | "ln.pline" | "ln.pval" | "ln.pi1" | "ln.pi2" => lines(regs, op, p),
        #[cfg(not(john_yu_sm9_core_verif_lines))]
        "ln.etan" | "ln.eline" | "ln.ptan" | "ln.pline" | "ln.pval" | "ln.pi1" | "ln.pi2" => Ok(Out::Text("unsupported".into())),
        // ---------------- interleaved sum of products ----------------
        #[cfg(not(john_yu_sm9_core_verif_skip_sop))]
        "sop.2" => {
            let a = [rfq(regs, p[0])?, rfq(regs, p[1])?];
            let b = [rfq(regs, p[2])?, rfq(regs, p[3])?];
            vfq(vh::sum_of_products_2(&a, &b))
        }
        #[cfg(not(john_yu_sm9_core_verif_skip_sop))]
        "sop.4" => {
            let a = [rfq(regs, p[0])?, rfq(regs, p[1])?, rfq(regs, p[2])?, rfq(regs, p[3])?];
            let b = [rfq(regs, p[4])?, rfq(regs, p[5])?, rfq(regs, p[6])?, rfq(regs, p[7])?];
            vfq(vh::sum_of_products_4(&a, &b))
        }
        _ => Err(format!("unknown op {}", op)),
    }
}

#[cfg(john_yu_sm9_core_verif_lines)]
fn lines(regs: &Regs, op: &str, p: &[&str]) -> R {
    use sm9_core::verif_hooks::verif_lines as vl;
    let f2 = |x: &RawFq2| hx(&vh::fq2_from(*x).to_slice());
    match op {
        // numerator and denominator of the tangent at T / the chord through T and Q, evaluated at P (P must have z = 1)
        "ln.etan" => {
            let (n, d) = vl::eval_g_tangent(&vh::g2_inner(&a_g2(regs, p[0])?), &vh::g1_inner(&a_g1(regs, p[1])?));
            Ok(Out::Text(format!("{} {}", hx(&n.to_slice()), hx(&d.to_slice()))))
        }
        "ln.eline" => {
            let (n, d) = vl::eval_g_line(&vh::g2_inner(&a_g2(regs, p[0])?), &vh::g2_inner(&a_g2(regs, p[1])?), &vh::g1_inner(&a_g1(regs, p[2])?));
            Ok(Out::Text(format!("{} {}", hx(&n.to_slice()), hx(&d.to_slice()))))
        }
        // coefficient triple of the prepared loop and the updated accumulator: "c0 c1 c2 T'"
        "ln.ptan" => {
            let mut t = vh::g2_inner(&a_g2(regs, p[0])?);
            let c = vl::g_tangent(&mut t);
            Ok(Out::Text(format!("{} {} {} {}", f2(&c.0), f2(&c.1), f2(&c.2), g2s(&vh::g2_from(t)))))
        }
        "ln.pline" => {
            let mut t = vh::g2_inner(&a_g2(regs, p[0])?);
            let c = vl::g_line(&mut t, &vh::g2_inner(&a_g2(regs, p[1])?));
            Ok(Out::Text(format!("{} {} {} {}", f2(&c.0), f2(&c.1), f2(&c.2), g2s(&vh::g2_from(t)))))
        }
        "ln.pval" => {
            let c = (rfq2(regs, p[0])?, rfq2(regs, p[1])?, rfq2(regs, p[2])?);
            v12(vl::prepared_line_value(&c, &vh::g1_inner(&a_g1(regs, p[3])?)))
        }
        "ln.pi1" => Ok(Out::V(Val::G2(vh::g2_from(vl::point_pi1(&vh::g2_inner(&a_g2(regs, p[0])?)))))),
        "ln.pi2" => Ok(Out::V(Val::G2(vh::g2_from(vl::point_pi2(&vh::g2_inner(&a_g2(regs, p[0])?)))))),
        _ => Err(format!("unknown op {}", op)),
    }
}
